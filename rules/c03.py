"""C03 — everything the library owns is released exactly once, on every path (structural clauses).

  R-DONEORDER  Core::Done on every path: read the caller slot -> Store the result (they share a union: no read of the
               slot after the Store) -> release the predecessor -> destroy the functor -> SetResult last
  R-FUNCTOR    the stored functor is destroyed exactly once per completion: Done<Async=false> destroys it on every
               path, Done<Async=true> never; an unwrapping step destroys it in CallResolveAsync after invoking it;
               PromiseCore::Call/Drop destroy it once, before/without invoking the moved-out copy
  R-REFBAL     predecessor reference balance per Core instantiation: FromUnique steps release the predecessor in
               Done; FromShared steps take a reference in Impl iff they release one in Done; an unwrapping step
               releases the predecessor before adopting the inner core and releases the inner core in Done<Async>
  R-DELETE     delete-expressions and coroutine-frame destruction occur only in the deleters (DefaultDeleter,
               PromiseTypeDeleter), UniqueJob::Drop and the timed-waiter fallback; a counted object's deleter runs only
               on the edge where the count reached zero
  R-UNIQUEJOB  UniqueJob::Call runs the functor then deletes itself exactly once; Drop deletes exactly once
  R-STRATEGY   owning combinator strategies release every registered input on every destructor path (Retire or DecRef)
  R-CANCEL     (shared with C12) a Task is cancelled only if it did not complete: a completed one just drops its core
"""
from rules import c12, lib_core, lib_when
from vlib import pathwalk

SELF = 'yaclib::detail::Callback'


class DoneWalker(pathwalk.Walker):
    def is_storage(self, fn, i, st):
        for d in fn.descendants(i):
            m = fn.nodes[d]
            if m.get('mn') == 'storage':
                return True
            if m['k'] == 'DeclRefExpr' and m.get('id') is not None and ('stor-alias', st.depth, m['id']) in st.data:
                return True
        return False

    def on_node(self, fn, n, st):
        k = n['k']
        loc = fn.loc(n)
        if k == 'DeclStmt':
            for v in n['vars']:
                if 'init' in v and fn.locals[v['id']]['t'].endswith('&') and self.is_storage(fn, v['init'], st):
                    st.data[('stor-alias', st.depth, v['id'])] = True
            return
        if k == 'MemberExpr':
            if n['dn'] == 'yaclib::detail::Callback::caller' or n['dn'].endswith('::_self'):
                st.events.append(('slot', loc))
            return
        if k == 'CXXMemberCallExpr':
            cn = n['cn']
            last = cn.split('::')[-1]
            if last == 'Store':
                st.events.append(('store', loc))
            elif last == 'DecRef':
                st.events.append(('decref', fn.text(n['obj']), loc))
            elif last == 'IncRef':
                st.events.append(('incref', fn.text(n['obj']), loc))
            elif last in ('SetResult', 'SetResultImpl'):
                st.events.append(('publish', loc))
            elif last.startswith('~') and self.is_storage(fn, n['i'], st):
                st.events.append(('destroy-functor', loc))
            elif last in ('CallResolveVoid',):
                st.events.append(('invoke', loc))
            elif last in ('StoreCallback', 'SetInline'):
                st.events.append(('adopt-inner', loc))
        elif k == 'CXXPseudoDestructorExpr' and self.is_storage(fn, n['i'], st):
            st.events.append(('destroy-functor', loc))
        elif k in ('CXXOperatorCallExpr', 'CallExpr') and n['k'] == 'CXXOperatorCallExpr' and n.get('op') == '()':
            tgt = n['args'][0] if n.get('args') else None
            if tgt is not None and any(fn.nodes[d]['k'] == 'DeclRefExpr' and fn.nodes[d].get('id') is not None and
                                       fn.locals[fn.nodes[d]['id']]['n'] == 'func' for d in fn.descendants(tgt)):
                st.events.append(('invoke', loc))
        elif k == 'CXXDeleteExpr':
            st.events.append(('delete', loc))
        elif k == 'BinaryOperator' and n['op'] == '=':
            l = fn.sn(n['ch'][0])
            if l is not None and l['k'] == 'MemberExpr' and l['dn'] == 'yaclib::detail::Callback::caller':
                st.events.append(('set-caller', loc))


def bits_of(f):
    try:
        return int(f.cta[4])
    except (ValueError, IndexError):
        return None


def check_core(ctx, fb, ro, rf, rb):
    ndone = 0
    for f in fb.fn.values():
        if f.clsq != 'yaclib::detail::Core' or f.cfg is None:
            continue
        bits = bits_of(f)
        if bits is None:
            continue
        run, from_u, from_s, call = bits & 1, bits & 4, bits & 8, bits & 64
        is_async = len(f.cta) > 5 and f.cta[5] not in ('0',) and not f.cta[5].endswith('None')
        tag = ' :: ' + f.cls[:140]
        if f.n == 'Done':
            ndone += 1
            async_done = len(f.fta) > 1 and f.fta[1] in ('true', '1')
            res = DoneWalker(fb).run(f)
            key = 'R-DONEORDER Core::Done'
            ctx.instance(ro, key + tag + ' <%s>' % ','.join(f.fta[:2]), dict(paths=len(res)))
            for st, _ in res:
                ev = st.events
                names = [e[0] for e in ev]
                msg = None
                if names.count('store') != 1 or names.count('publish') != 1:
                    msg = 'Done must store the result once and publish once (saw %d stores, %d publications)' % (
                        names.count('store'), names.count('publish'))
                else:
                    i_store, i_pub = names.index('store'), names.index('publish')
                    if 'slot' in names[i_store + 1:]:
                        msg = 'the caller slot is read after the result was stored over it (they share a union)'
                    elif any(n in ('decref', 'destroy-functor') for n in names[:i_store]):
                        msg = 'the predecessor is released / the functor destroyed before the result is stored (the ' \
                              'value may reference their storage)'
                    elif any(n in ('decref', 'destroy-functor', 'store') for n in names[i_pub + 1:]):
                        msg = 'something is touched after SetResult: the core may already be consumed and freed by ' \
                              'another thread'
                    elif i_pub < i_store:
                        msg = 'the core is published before the result is stored'
                if msg:
                    ctx.report(ro, key, f.where, msg, 'instantiation: ' + f.full[:300])
                    break
            key = 'R-FUNCTOR Core::Done'
            ctx.instance(rf, key + tag + ' <%s>' % ','.join(f.fta[:2]), None)
            for st, _ in res:
                nd = [e for e in st.events if e[0] == 'destroy-functor']
                want = 0 if async_done else 1
                if len(nd) != want:
                    ctx.report(rf, key, f.where, 'Done<Async=%s> destroys the functor %d times on a path (expected %d): '
                               '%s' % (async_done, len(nd), want, 'the functor and its captures leak' if len(nd) < want
                                       else 'the functor is destroyed twice'), 'instantiation: ' + f.full[:300])
                    break
            key = 'R-REFBAL Core::Done'
            ctx.instance(rb, key + tag + ' <%s>' % ','.join(f.fta[:2]), None)
            want_dec = bool(async_done or (not run and (from_u or call or is_async)))
            for st, _ in res:
                nd = [e for e in st.events if e[0] == 'decref']
                if bool(nd) != want_dec or len(nd) > 1:
                    ctx.report(rb, key, f.where,
                               'Done releases the %s %d times; this step %s' % (
                                   'inner core' if async_done else 'predecessor', len(nd),
                                   'owns exactly one reference to it' if want_dec else
                                   'holds no reference to it (inline step on a shared core / first step)'),
                               'instantiation: ' + f.full[:300])
                    break
        elif f.n == 'Impl' and 'lambda' not in f.flags and not run:
            key = 'R-REFBAL Core::Impl'
            ctx.instance(rb, key + tag, None)
            incs = [n for n in f.own_nodes() if n.get('cn', '').endswith('::IncRef')]
            want_inc = bool(from_s and (call or is_async))
            if bool(incs) != want_inc:
                ctx.report(rb, key, f.where, 'a step attached to a %s core %s a reference to it in Impl, but Done %s one' % (
                    'shared' if from_s else 'unique', 'takes' if incs else 'does not take',
                    'releases' if (from_u or call or is_async) else 'does not release'),
                    'instantiation: ' + f.full[:300])
        elif f.n == 'CallResolveAsync':
            res = DoneWalker(fb).run(f)
            key = 'R-FUNCTOR Core::CallResolveAsync'
            ctx.instance(rf, key + tag, None)
            for st, _ in res:
                names = [e[0] for e in st.events]
                nd = names.count('destroy-functor')
                if is_async:
                    ok = nd == 1 and 'invoke' in names and names.index('invoke') < names.index('destroy-functor')
                    ok = ok and ('adopt-inner' not in names or names.index('destroy-functor') <
                                 names.index('adopt-inner'))
                    if not ok:
                        ctx.report(rf, key, f.where, 'an unwrapping step must destroy its functor exactly once, after '
                                   'invoking it and before it hands itself to the inner core (saw %s)' % names,
                                   'instantiation: ' + f.full[:300])
                        break
                elif nd != 0:
                    ctx.report(rf, key, f.where, 'a non-unwrapping step destroys its functor here AND in Done')
                    break
            if is_async and not run:
                key = 'R-REFBAL Core::CallResolveAsync'
                ctx.instance(rb, key + tag, None)
                for st, _ in res:
                    ev = st.events
                    names = [e[0] for e in ev]
                    if 'set-caller' not in names:
                        ctx.report(rb, key, f.where, 'the inner core is not adopted into the caller slot')
                        break
                    i = names.index('set-caller')
                    if names[:i].count('decref') != 1:
                        ctx.report(rb, key, f.where, 'the predecessor must be released exactly once before the inner '
                                   'core replaces it in the caller slot (saw %d)' % names[:i].count('decref'),
                                   'instantiation: ' + f.full[:300])
                        break
    if ndone < 100:
        ctx.broken('Core::Done instantiations missing (%d)' % ndone)
    # PromiseCore
    for f in fb.fn.values():
        if f.clsq == 'yaclib::detail::PromiseCore' and f.n in ('Call', 'Drop') and f.cfg is not None:
            key = 'R-FUNCTOR PromiseCore::' + f.n
            res = DoneWalker(fb).run(f)
            ctx.instance(rf, key + ' :: ' + f.cls[:140], None)
            for st, _ in res:
                names = [e[0] for e in st.events]
                nd = names.count('destroy-functor')
                if nd != 1:
                    ctx.report(rf, key, f.where, 'the stored functor is destroyed %d times on a path' % nd)
                    break
                if f.n == 'Call' and 'invoke' in names and names.index('invoke') < names.index('destroy-functor'):
                    ctx.report(rf, key, f.where, 'the stored functor must be moved out and destroyed before the copy is '
                               'invoked (the promise may complete and free the core during the call)')
                    break


DELETE_OK = {
    'yaclib::detail::DefaultDeleter::Delete': 'the reference-count deleter',
    'yaclib::detail::PromiseTypeDeleter::Delete': 'coroutine frame deleter',
    'yaclib::detail::UniqueJob::Drop': 'a unique job owns itself',
    'yaclib::OneShotEvent::TimedWait': 'fallback when the timed waiter was not registered',
}


def check_delete(ctx, fb, rd, root):
    n = 0
    for f in fb.fn.values():
        if not f.qn.startswith('yaclib::') or '/fault/' in f.file:
            continue
        for x in f.own_nodes():
            if x['k'] == 'CXXDeleteExpr' or x.get('cn') in ('std::coroutine_handle::destroy',):
                n += 1
                key = 'R-DELETE ' + f.qn
                ctx.instance(rd, key, dict(where=f.loc(x), reason=DELETE_OK.get(f.qn, '(not in table)')))
                if f.qn not in DELETE_OK:
                    ctx.report(rd, key, f.loc(x), 'memory / a coroutine frame is released outside the deleters: an '
                               'object managed by reference counting can be freed twice or while referenced',
                               'function: ' + f.full[:300])
    class SubWalker(lib_core.CoreWalker):
        def on_edge(self, fn, ci, taken, st):
            super().on_edge(fn, ci, taken, st)
            c = fn.sn(ci)
            neg = False
            while c is not None and c['k'] == 'UnaryOperator' and c['op'] == '!':
                neg = not neg
                c = fn.sn(c['ch'][0])
            if c is not None and c.get('cn', '').endswith('::SubEqual'):
                st.events.append(('zero', taken != neg))

    for f in fb.by_qn('yaclib::detail::AtomicCounter::Sub'):
        key = 'R-DELETE AtomicCounter::Sub'
        res = SubWalker(fb).run(f)
        ctx.instance(rd, key + ' :: ' + f.cls[:100], None)
        for st, _ in res:
            ev = st.events
            dele = [i for i, e in enumerate(ev) if e[0] == 'call' and e[1].endswith('::Delete')]
            zero = [e for e in ev if e[0] == 'zero']
            if not zero:
                ctx.report(rd, key, f.where, 'the deleter is not guarded by the decrement reaching zero')
                break
            if dele and not any(e == ('zero', True) for e in ev[:dele[0]]):
                ctx.report(rd, key, ev[dele[0]][3], 'the deleter can run although the count did not reach zero')
                break
            if not dele and zero[-1][1] is True:
                ctx.report(rd, key, f.where, 'the count reached zero and the object is not deleted (leak)')
                break
    return n


def check_unique_job(ctx, fb, ru):
    n = 0
    for f in fb.fn.values():
        if f.clsq != 'yaclib::detail::UniqueJob' or f.cfg is None or f.n not in ('Call', 'Drop'):
            continue
        n += 1
        key = 'R-UNIQUEJOB UniqueJob::' + f.n
        ctx.instance(ru, key + ' :: ' + f.cls[:100], None)
        res = lib_core.CoreWalker(fb, inline_names=('yaclib::detail::UniqueJob::Drop',)).run(f)
        for st, _ in res:
            names = [e[1].split('::')[-1] for e in st.events if e[0] == 'call']
            dels = sum(1 for st2 in [st] for x in f.own_nodes() if x['k'] == 'CXXDeleteExpr')
            if f.n == 'Drop' and dels != 1:
                ctx.report(ru, key, f.where, 'Drop must delete the job exactly once (%d delete expressions)' % dels)
                break
            if f.n == 'Call':
                if names.count('Drop') != 1 or 'Call' not in names or names.index('Call') > names.index('Drop'):
                    ctx.report(ru, key, f.where, 'Call must run the functor and then release the job exactly once (saw '
                               '%s)' % names)
                    break
    if n < 2:
        ctx.broken('UniqueJob not instantiated')


def check_strategy_dtors(ctx, fb, rs):
    strat = lib_when.strategies(fb, ('yaclib::when::All',))
    if not strat:
        ctx.broken('owning strategies (when::All) not instantiated')
    for cls, fs in sorted(strat.items()):
        for f in fs:
            if 'dtor' not in f.flags:
                continue
            key = 'R-STRATEGY %s::~dtor' % f.clsq
            w = lib_when.WhenWalker(fb)
            w.loop_bound = 1
            w.track_blocks = True
            res = w.run(f)
            ctx.instance(rs, key + ' :: ' + cls[:140], dict(paths=len(res)))
            # on every path that iterates the registered cores, each iteration releases the core once
            loops = f.cfg.loops()
            rel = [n for n in f.own_nodes() if n.get('cn', '').split('::')[-1] in ('Retire', 'DecRef') and
                   f.cfg.pos_of(n['i']) and f.cfg.pos_of(n['i'])[0] in loops]
            if not rel:
                ctx.report(rs, key, f.where, 'an owning strategy does not release the registered input cores in its '
                           'destructor (they leak)')
                continue
            rel_blocks = {f.cfg.pos_of(n['i'])[0] for n in rel}
            # every block of the loops that contain a release (their headers are visited even with zero iterations)
            releasing = set()
            for b in loops:
                if b in rel_blocks:
                    releasing.add(b)
            changed = True
            while changed:
                changed = False
                for b in loops:
                    if b not in releasing and any(s2 in releasing for s2 in f.cfg.succs(b)):
                        releasing.add(b)
                        changed = True
            for st, _ in res:
                if not (st.data.get('blocks', frozenset()) & releasing):
                    ctx.report(rs, key, f.where, 'a destructor path does not walk the registered input cores at all: '
                               'they are never released on that path (leak)')
                    break
                ev = [e[0] for e in st.events if e[0] in ('retire', 'decref')]
                # two unrolled iterations at most; never both Retire and DecRef of one core in one iteration
                if 'retire' in ev and 'decref' in ev:
                    ctx.report(rs, key, f.where, 'a path both retires and DecRefs the registered cores (double release)')
                    break


def run(ctx):
    fbs = ctx.facts(['K17', 'K20'], kinds=('probe', 'lib'), tests=r'/test/',
                    quick_tests=r'unit/async/(future|future_functor|task)\.cpp|unit/util/intrusive_ptr\.cpp')
    ro = ctx.rule('R-DONEORDER', 'teardown order in Core::Done', minimum=200)
    rf = ctx.rule('R-FUNCTOR', 'the stored functor is destroyed exactly once per completion', minimum=200)
    rb = ctx.rule('R-REFBAL', 'predecessor / inner-core reference balance per Core instantiation', minimum=200)
    rd = ctx.rule('R-DELETE', 'delete discipline', minimum=4)
    ru = ctx.rule('R-UNIQUEJOB', 'UniqueJob releases itself exactly once', minimum=2)
    rs = ctx.rule('R-STRATEGY', 'owning strategies release every registered input', minimum=2)
    rc = ctx.rule('R-CANCEL', 'a completed Task is not cancelled; an abandoned one is', minimum=6)
    rp = ctx.rule('R-SHAREDWALK', 'shared core: exactly kSharedRefNoFuture references released by the promise side',
                  minimum=1)
    ra = ctx.rule('R-AFTERRELEASE', 'no use of an object after the function gave its (last owned) reference away',
                  minimum=40)
    rhs = ctx.rule('R-HANDLESPEC', 'every member of IntrusivePtr keeps the reference count in step with the handles that '
                   'exist (ownership conservation) and leaves the pointers its row says: abstract interpretation of each '
                   'member on null / same / other inputs, temporaries destroyed at the end of the full expression',
                   minimum=60)
    rhm = ctx.rule('R-HANDLEMOVE', 'move assignment of Future / Promise / SharedPromise / Task never releases the state the '
                   'left-hand side held by a bare DecRef: it leaves in the right-hand side and meets its destructor',
                   minimum=6)
    rac = ctx.rule('R-APICOVER', 'every public namespace-scope function template of the library is instantiated by some '
                   'analysed unit (an entry nobody instantiates is checked by no rule; F14 did not even compile)',
                   minimum=60)
    ctx.guard(lambda: lib_core.check_api_cover(ctx, fbs, rac))
    rso = ctx.rule('R-STOREOVER', 'typestate of the Result storage: a core whose constructor stored a Result destroys it '
                   'before it stores another one (and never destroys without storing again)', minimum=8)
    rha = ctx.rule('R-HANDLEASSIGN', 'IntrusivePtr same-type move assignment swaps (the handles\' defaulted move '
                   'assignment relies on the moved-from destructor protocol)', minimum=4)
    rad = ctx.rule('R-ADOPT', 'a function that adopts (NoRefTag) a reference to an object it was handed - the executor of '
                   'Run / Schedule / MakeContractOn - has taken that reference itself: IncRef calls and adoptions of the '
                   'object balance on every path, IncRef first', minimum=4)
    from rules import lib_attach
    rho = ctx.rule('R-HANDOFF', 'a When* combinator is not touched after its last input has been registered: the registration loop\'s condition / increment and the code after it work on locals only', minimum=2)
    rfr = ctx.rule('R-FACTORYREFS', 'a factory of a shared state builds every handle on the fresh core as an adopting one, and the initial count is kSharedRefNoFuture plus the future handles it hands out', minimum=4)
    for cfg, fb in sorted(fbs.items()):
        from rules import lib_factory
        if (ctx.guard(lambda: lib_factory.check_factory_refs(ctx, fb, rfr)) or 0) < 4:
            ctx.guard(lambda: ctx.broken('R-FACTORYREFS: the shared factories are not instantiated in %s' % cfg))
        from rules import lib_when as _lw2, lib_handoff as _lh
        ctx.guard(lambda: _lh.check_handoff_helpers(ctx, fb, rho))
        if (ctx.guard(lambda: _lw2.check_handoff_loops(ctx, fb, rho)) or 0) < 1:
            ctx.guard(lambda: ctx.broken('R-HANDOFF: no registration loop of a When* combinator found'))
        ctx.guard(lambda: lib_attach.check_adopt(ctx, fb, rad, 4))
        ctx.guard(lambda: lib_core.check_handle_assign(ctx, fb, rha))
        if (ctx.guard(lambda: lib_core.check_store_over(ctx, fb, rso)) or 0) < 4:
            ctx.guard(lambda: ctx.broken('R-STOREOVER: no method of a constructed-ready core (ReadyCore) found in %s' % cfg))
        if cfg == 'K17':
            from rules import lib_iptr
            ctx.guard(lambda: lib_iptr.check_handle_spec(ctx, fb, rhs))
        from rules import lib_iptr as _li
        if (ctx.guard(lambda: _li.check_handle_move(ctx, fb, rhm)) or 0) < 3:
            ctx.guard(lambda: ctx.broken('R-HANDLEMOVE: handle move assignments not instantiated in %s' % cfg))
        ctx.guard(lambda: check_core(ctx, fb, ro, rf, rb))
        ctx.guard(lambda: lib_core.check_after_release(ctx, fb, ra))
        ctx.guard(lambda: check_delete(ctx, fb, rd, ctx.root))
        ctx.guard(lambda: check_unique_job(ctx, fb, ru))
        ctx.guard(lambda: check_strategy_dtors(ctx, fb, rs))
        ctx.guard(lambda: c12.check_cancel(ctx, fb, rc))
        ctx.guard(lambda: lib_core.check_shared_walk(ctx, fb, rp))
