# Builds the fact extractor (LibTooling, clang 14). Offline; nothing is fetched.
LLVM_CXXFLAGS := $(shell llvm-config-14 --cxxflags)
LLVM_LIBS := /usr/lib/llvm-14/lib/libclang-cpp.so.14 /usr/lib/llvm-14/lib/libLLVM-14.so

all: build/yaclint

build/yaclint: tool/yaclint.cc
	mkdir -p build
	clang++ $(LLVM_CXXFLAGS) -O1 -fno-rtti tool/yaclint.cc -o build/yaclint $(LLVM_LIBS)

clean:
	rm -rf build .cache

.PHONY: all clean
