// F16 (C19, fixed in /repo 7d5f8a1): yaclib_std::atomic<T> under the fault-injection backends does not accept assignment from T.
//   THREAD backend:  `a = x`  and  `v = x` (volatile)  are ill-formed
//   FIBER  backend:  `v = x` (volatile) is ill-formed
// The wrapper hierarchy (include/yaclib/fault/detail/atomic.hpp) declares `T operator=(T)` only in AtomicBase; every
// derived class (AtomicFloatingBase, AtomicIntegralBase, Atomic, the pointer specialisation) has an implicitly declared
// (deleted) copy assignment that HIDES it, so `a = x` finds only the deleted copy assignment.  std::atomic<T> supports
// both forms (the property lists store among the operations; `a = x` is std::atomic's store-and-return-value).
// Repair: `using Base::operator=;` in each derived class of both hierarchies and an operator=(T) of its own for the
// fiber implementation (baseline 30/30, FIBER 42/42, THREAD 40/40).
//
// Replay (syntax only; <bt> / <bf> = build directories configured with -DYACLIB_FAULT=THREAD / FIBER):
//   g++ -std=c++20 -fsyntax-only -I/repo/include -I<bt>/include F16_atomic_assignment_from_value_is_ill_formed.cpp
//   before the fix -> error: use of deleted function '...Atomic<std::atomic<long>, long>::operator=(...&&)'
#include <yaclib_std/atomic>

int main() {
  yaclib_std::atomic<long> a{1};
  a = 5;
  volatile yaclib_std::atomic<long>& v = a;
  v = 6;
  return static_cast<int>(a.load());
}
