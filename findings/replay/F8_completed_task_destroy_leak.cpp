// C12/C03: destroying a Task that already completed (after co_await Await(task)) must just release its result.
#include <yaclib/async/run.hpp>
#include <yaclib/coro/await.hpp>
#include <yaclib/coro/future.hpp>
#include <yaclib/coro/task.hpp>
#include <yaclib/lazy/make.hpp>
#include <cstdio>
static int live = 0, ctor = 0, dtor = 0;
struct Counted {
  int v = 0;
  Counted(int x = 0) : v(x) { ++live; ++ctor; }
  Counted(const Counted& o) : v(o.v) { ++live; ++ctor; }
  Counted(Counted&& o) noexcept : v(o.v) { ++live; ++ctor; }
  Counted& operator=(const Counted&) = default;
  Counted& operator=(Counted&&) = default;
  ~Counted() { --live; ++dtor; }
};
yaclib::Task<Counted> Inner() { co_return Counted{7}; }
yaclib::Future<int> Outer(int mode) {
  if (mode == 0) {
    auto t = Inner();
    co_await Await(t);
    printf("coroutine task: Ready=%d value=%d live=%d\n", t.Ready(), std::as_const(t).Touch().Value().v, live);
    // t destroyed here while completed
  } else {
    auto t = yaclib::MakeTask(Counted{9});
    co_await Await(t);
    printf("MakeTask: Ready=%d value=%d live=%d\n", t.Ready(), std::as_const(t).Touch().Value().v, live);
  }
  co_return 0;
}
int main(int argc, char** argv) {
  int mode = argc > 1 ? atoi(argv[1]) : 0;
  {
    auto f = Outer(mode);
    (void)std::move(f).Get().Value();
  }
  printf("constructed=%d destroyed=%d live at quiescence=%d (expected 0)\n", ctor, dtor, live);
  return live == 0 ? 0 : 3;
}
