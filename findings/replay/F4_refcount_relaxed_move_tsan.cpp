// Two holders of one SharedFuture<std::string>. T2 reads the value through its copy and drops the copy.
// T1 then calls Get()&& which moves the value out if GetRef()==1. The only link between T2's read and T1's
// move is the reference counter: fetch_sub(release) in T2, load(relaxed) in T1.
#include <yaclib/async/shared_contract.hpp>
#include <yaclib/async/shared_future.hpp>
#include <atomic>
#include <string>
#include <thread>
#include <cstdio>
int main() {
  for (int it = 0; it < 200; ++it) {
    auto [sf, sp] = yaclib::MakeSharedContract<std::string>();
    std::move(sp).Set(std::string(100, 'x'));
    yaclib::SharedFuture<std::string> copy = sf;
    std::size_t len = 0;
    std::thread t2([c = std::move(copy), &len]() mutable {
      len = std::as_const(c).Touch().Value().size();  // plain read of the shared value
      c = {};                          // drop the reference: fetch_sub(release)
    });
    // wait, without creating happens-before, until T2 dropped its reference
    while (sf.GetCore()->GetRef() != 1) {
    }
    yaclib::Result<std::string, yaclib::StopError> r = std::move(sf).Get();  // GetRef()==1 -> moves the value (plain write)
    t2.join();
    if (std::as_const(r).Value().size() != 100) printf("bad\n");
  }
  printf("done\n");
}
