// F13: fiber yaclib_std::atomic<double/float>::compare_exchange_* compares VALUES (operator==) where std::atomic
// compares object representations:  stored +0.0, expected -0.0  -> std fails (bits differ), the fiber
// re-implementation succeeds and stores `desired`;  stored NaN, expected the bit-identical NaN -> std succeeds,
// the fiber re-implementation fails (NaN != NaN) although nothing else touched the object.
#include <yaclib/fault/config.hpp>
#include <yaclib/fault/detail/fiber/scheduler.hpp>
#include <yaclib_std/atomic>
#include <yaclib_std/thread>
#include <atomic>
#include <cmath>
#include <cstdio>
#include <cstdlib>
#include <cstring>
#include <limits>
template <typename T>
static unsigned long long Bits(T v) {
  unsigned long long b = 0;
  std::memcpy(&b, &v, sizeof(T));
  return b;
}
static int bad = 0;
template <typename T>
static void Case(const char* what, T stored, T expected, T desired) {
  std::atomic<T> s{stored};
  yaclib_std::atomic<T> y{stored};
  T es = expected, ey = expected;
  const bool rs = s.compare_exchange_strong(es, desired);
  const bool ry = y.compare_exchange_strong(ey, desired);
  const bool same = rs == ry && Bits(es) == Bits(ey) && Bits(s.load()) == Bits(y.load());
  std::printf("%-34s std: ret=%d expected=%016llx stored=%016llx | yaclib_std: ret=%d expected=%016llx stored=%016llx  %s\n",
              what, rs, Bits(es), Bits(s.load()), ry, Bits(ey), Bits(y.load()), same ? "ok" : "DISAGREE");
  bad += !same;
}
static void body() {
  Case<double>("double +0.0 vs expected -0.0", 0.0, -0.0, 1.0);
  Case<double>("double -0.0 vs expected +0.0", -0.0, 0.0, 1.0);
  const double nan = std::numeric_limits<double>::quiet_NaN();
  Case<double>("double NaN vs the same NaN", nan, nan, 1.0);
  Case<float>("float +0.0 vs expected -0.0", 0.0f, -0.0f, 1.0f);
  Case<double>("double 2.5 vs 2.5 (control)", 2.5, 2.5, 1.0);
  Case<long>("long 7 vs 7 (control)", 7, 7, 1);
}
int main() {
  yaclib::SetFaultFrequency(1u << 30);
  yaclib::SetAtomicFailFrequency(1u << 30);
  yaclib::fault::Scheduler scheduler;
  yaclib::fault::Scheduler::Set(&scheduler);
  yaclib_std::thread t(body);
  t.join();
  if (bad) {
    std::printf("DEFECT: %d case(s) disagree with std::atomic\n", bad);
    return 3;
  }
  std::printf("OK\n");
  return 0;
}
