#include <yaclib/async/contract.hpp>
#include <yaclib/async/shared_contract.hpp>
#include <yaclib/async/shared_future.hpp>
#include <yaclib/algo/wait_group.hpp>
#include <cstdio>
int main() {
  int bad = 0;
  {
    auto [sf, sp] = yaclib::MakeSharedContract<int>();
    printf("shared: Ready before anything = %d\n", sf.Ready());
    sf.SubscribeInline([](int) {});
    bool r = sf.Ready();
    printf("shared: Ready after a callback was registered, before Set = %d (expected 0)\n", r);
    bad += r;
    std::move(sp).Set(7);
    printf("shared: Ready after Set = %d\n", sf.Ready());
  }
  {
    auto [f, p] = yaclib::MakeContract<int>();
    yaclib::WaitGroup<> wg;
    wg.Attach(f);
    bool r = f.Ready();
    printf("unique: Ready after WaitGroup::Attach, before Set = %d (expected 0)\n", r);
    bad += r;
    const auto* res = std::as_const(f).Get();
    printf("unique: Get() const& returned %s before Set (expected nullptr)\n", res ? "non-null" : "nullptr");
    std::move(p).Set(1);
    wg.Wait();
    printf("unique: Ready after Set = %d\n", f.Ready());
  }
  return bad ? 3 : 0;
}
