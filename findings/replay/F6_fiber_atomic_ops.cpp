// Replay for C19: yaclib_std::atomic under the FIBER backend vs std::atomic, same single-threaded sequence.
// Build (FIBER config, see README.md in this directory), run: prints every disagreement, exit 3 if any.
#include <yaclib_std/atomic>
#include <atomic>
#include <cstdio>
static int bad = 0;
#define CHECK(what, y, s)                                                     \
  do {                                                                        \
    long yy = (long)(y), ss = (long)(s);                                      \
    if (yy != ss) { printf("DISAGREE %-28s yaclib=%ld std=%ld\n", what, yy, ss); ++bad; } \
  } while (0)
int main() {
  yaclib_std::atomic<int> a{6};
  std::atomic<int> s{6};
  int ra = a.fetch_and(3), rs = s.fetch_and(3);
  CHECK("fetch_and return", ra, rs);
  CHECK("fetch_and stored", a.load(), s.load());
  a = 5; s = 5;
  ra = ++a; rs = ++s; CHECK("pre-increment return", ra, rs);
  ra = a++; rs = s++; CHECK("post-increment return", ra, rs);
  ra = --a; rs = --s; CHECK("pre-decrement return", ra, rs);
  ra = a--; rs = s--; CHECK("post-decrement return", ra, rs);
  CHECK("final stored", a.load(), s.load());
  int arr[8];
  yaclib_std::atomic<int*> pa{arr + 2};
  std::atomic<int*> ps{arr + 2};
  CHECK("ptr pre-increment return", ++pa - arr, ++ps - arr);
  CHECK("ptr post-increment return", pa++ - arr, ps++ - arr);
  CHECK("ptr pre-decrement return", --pa - arr, --ps - arr);
  CHECK("ptr post-decrement return", pa-- - arr, ps-- - arr);
  return bad ? 3 : 0;
}
