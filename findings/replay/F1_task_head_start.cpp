#include <yaclib/async/make.hpp>
#include <yaclib/async/run.hpp>
#include <yaclib/lazy/schedule.hpp>
#include <yaclib/lazy/make.hpp>
#include <yaclib/exe/manual.hpp>
#include <cstdio>
#include <cstdlib>
int main(int argc, char** argv) {
  int mode = argc > 1 ? atoi(argv[1]) : 0;
  if (mode == 0) {  // MakeTask returned from callback
    auto f = yaclib::MakeFuture(1).ThenInline([](int x) { return yaclib::MakeTask(x + 1); });
    printf("mode0 MakeTask inner: %d\n", std::move(f).Get().Value());
  } else if (mode == 1) {  // Schedule()-built task returned from callback
    auto f = yaclib::MakeFuture(1).ThenInline([](int x) { return yaclib::Schedule([x] { return x + 1; }); });
    printf("mode1 Schedule inner: %d\n", std::move(f).Get().Value());
  } else if (mode == 2) {  // Schedule().Then() task
    auto f = yaclib::MakeFuture(1).ThenInline([](int x) { return yaclib::Schedule([x] { return x + 1; }).ThenInline([](int y) { return y * 2; }); });
    printf("mode2 Schedule.Then inner: %d\n", std::move(f).Get().Value());
  } else if (mode == 3) {  // LazyContract task
    auto f = yaclib::MakeFuture(1).ThenInline([](int x) { return yaclib::LazyContract<int>([x](yaclib::Promise<int> p) { std::move(p).Set(x + 1); }); });
    printf("mode3 LazyContract inner: %d\n", std::move(f).Get().Value());
  } else if (mode == 4) {  // eager twin
    auto f = yaclib::MakeFuture(1).ThenInline([](int x) { return yaclib::Run([x] { return x + 1; }); });
    printf("mode4 Run inner: %d\n", std::move(f).Get().Value());
  }
  return 0;
}
