// C05 replay: a step attached with Then(f) (no executor named) after a step that returned a coroutine
// must be submitted to the executor inherited along the chain. Compare a coroutine Task with its eager twin.
#include <yaclib/async/run.hpp>
#include <yaclib/coro/future.hpp>
#include <yaclib/coro/task.hpp>
#include <yaclib/exe/manual.hpp>
#include <cstdio>
yaclib::Task<int> InnerTask(int x) { co_return x + 1; }
yaclib::Future<int> InnerFuture(int x) { co_return x + 1; }
template <bool Lazy>
size_t Jobs() {
  auto manual = yaclib::MakeManual();
  auto& m = static_cast<yaclib::ManualExecutor&>(*manual);
  auto f = yaclib::Run(*manual, [] { return 1; })
             .Then([](int x) { if constexpr (Lazy) return InnerTask(x); else return InnerFuture(x); })
             .Then([](int y) { return y * 2; });
  size_t n = 0;
  while (size_t k = m.Drain()) n += k;
  (void)std::move(f).Get().Value();
  return n;
}
int main() {
  size_t eager = Jobs<false>(), lazy = Jobs<true>();
  printf("jobs submitted to the chain executor: inner Future=%zu, inner Task=%zu (expected equal: 3)\n", eager, lazy);
  return eager == lazy ? 0 : 3;
}
