#include <yaclib/async/contract.hpp>
#include <yaclib/async/make.hpp>
#include <yaclib/async/when_all.hpp>
#include <yaclib/async/when_any.hpp>
#include <cstdio>
#include <cstdlib>
int main(int argc, char** argv) {
  int mode = argc > 1 ? atoi(argv[1]) : 0;
  if (mode == 0) {  // tuple form, FirstFail, two failing inputs of different value types
    auto [f1, p1] = yaclib::MakeContract<int>();
    auto [f2, p2] = yaclib::MakeContract<double>();
    auto all = yaclib::WhenAll(std::move(f1), std::move(f2));
    std::move(p1).Set(yaclib::StopTag{});
    printf("first failure delivered, all.Ready=%d\n", all.Ready());
    std::move(p2).Set(yaclib::StopTag{});  // second failure
    printf("second failure consumed without crash\n");
    auto r = std::move(all).Get();
    printf("state=%d\n", (int)r.State());
  } else if (mode == 1) {  // tuple form, one failure then one value: ok
    auto [f1, p1] = yaclib::MakeContract<int>();
    auto [f2, p2] = yaclib::MakeContract<double>();
    auto all = yaclib::WhenAll(std::move(f1), std::move(f2));
    std::move(p1).Set(yaclib::StopTag{});
    std::move(p2).Set(1.0);
    auto r = std::move(all).Get();
    printf("state=%d\n", (int)r.State());
  }
}
