// C05/C13: executor inheritance across a step that returns a coroutine Task; and two coroutines awaiting one SharedFuture
#include <yaclib/async/contract.hpp>
#include <yaclib/async/run.hpp>
#include <yaclib/async/shared_contract.hpp>
#include <yaclib/coro/await.hpp>
#include <yaclib/coro/future.hpp>
#include <yaclib/coro/task.hpp>
#include <yaclib/coro/shared_future.hpp>
#include <yaclib/exe/manual.hpp>
#include <yaclib/lazy/make.hpp>
#include <cstdio>
#include <cstdlib>
#include <string>
yaclib::Task<int> Inner(int x) { co_return x + 1; }
yaclib::Future<std::string> Waiter(yaclib::SharedFuture<std::string> sf, int id) {
  std::string v = co_await sf;
  printf("waiter %d resumed with value of size %zu\n", id, v.size());
  co_return v;
}
int main(int argc, char** argv) {
  int mode = argc > 1 ? atoi(argv[1]) : 0;
  if (mode == 0) {
    auto manual = yaclib::MakeManual();
    auto& m = static_cast<yaclib::ManualExecutor&>(*manual);
    int ran_on_manual = 0;
    auto f = yaclib::Run(*manual, [] { return 1; })
               .Then([](int x) { return Inner(x); })     // returns a coroutine Task
               .Then([&](int y) { ++ran_on_manual; return y * 2; });  // no executor named: must inherit `manual`
    size_t n = 0;
    while (size_t k = m.Drain()) n += k;
    printf("drained %zu jobs, third step ran: %d\n", n, ran_on_manual);
    printf("result=%d\n", std::move(f).Get().Value());
  } else if (mode == 1) {
    auto [sf, sp] = yaclib::MakeSharedContract<std::string>();
    auto a = Waiter(sf, 1);
    printf("first waiter suspended, Ready(a)=%d\n", a.Ready());
    auto b = Waiter(sf, 2);   // await_ready() == !Empty() is true here: a callback is registered, no value yet
    printf("second waiter: Ready(b)=%d before Set (expected 0)\n", b.Ready());
    bool bad = b.Ready();
    std::move(sp).Set(std::string(100, 'x'));
    printf("after Set: Ready(a)=%d Ready(b)=%d\n", a.Ready(), b.Ready());
    return bad ? 3 : 0;
  }
}
