// F11 — yaclib_std::condition_variable::wait_for / wait_until WITHOUT a predicate cannot be used under
// YACLIB_FAULT=FIBER (and THREAD): the wrapper template calls detail::CVStatusFrom, which the header
// only DECLARES `constexpr` (implicitly inline) while the definitions sit in src/fault/condition_variable.cpp.
// An inline function must be defined in every translation unit that uses it: g++ warns "used but never
// defined" and the link fails with  undefined reference to yaclib::detail::CVStatusFrom(WaitStatus).
//
// build (scratch FIBER build of the unfixed tree in <B>):
//   g++ -std=c++20 -fcoroutines -I<repo>/include -I<B>/include F11_cv_timed_wait_does_not_link.cpp <B>/src/libyaclib.a -lpthread
// before the fix: link error;  after the fix: links, and run under the fiber scheduler returns timeout.
#include <yaclib_std/condition_variable>
#include <yaclib_std/mutex>

#include <chrono>

int main() {
  yaclib_std::mutex m;
  yaclib_std::condition_variable cv;
  std::unique_lock lock{m};
  auto st = cv.wait_for(lock, std::chrono::milliseconds{1});
  auto st2 = cv.wait_until(lock, yaclib_std::chrono::steady_clock::now() + std::chrono::milliseconds{1});
  return st == std::cv_status::timeout && st2 == std::cv_status::timeout ? 0 : 1;
}
