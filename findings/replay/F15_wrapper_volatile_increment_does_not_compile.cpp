// F15 (C19): yaclib_std::atomic<T> under a fault-injection backend (YACLIB_FAULT=THREAD or FIBER): the volatile
// overloads of pre/post increment and decrement of the injection wrapper (include/yaclib/fault/detail/atomic.hpp,
// AtomicBase<Impl, T>::operator++ / operator-- [volatile]) did `static_cast<Impl&>(*this)` inside a volatile member
// function, which casts volatile away: every instantiation was a hard compile error, while std::atomic<T> supports
// ++ / -- on volatile objects (the property lists "pre/post increment and decrement" among the operations that must
// behave like std::atomic's).  Nothing instantiated them: no test, no example, and not the probe p_atomic either, so
// R-OPTABLE never saw these four overloads.
//
// Replay (syntax only; any build directory configured with -DYACLIB_FAULT=THREAD or FIBER provides the config header):
//   cmake -G Ninja -S /repo -B /tmp/f15_bt -DYACLIB_FAULT=THREAD -DYACLIB_FLAGS=CORO -DYACLIB_CXX_STANDARD=20
//   g++ -std=c++20 -fsyntax-only -I/repo/include -I/tmp/f15_bt/include F15_wrapper_volatile_increment_does_not_compile.cpp
// before the fix: "error: invalid 'static_cast' from type 'volatile yaclib::detail::AtomicBase<...>' to type 'Impl&'"
// after the fix (static_cast<volatile Impl&>): compiles.
#include <yaclib_std/atomic>

int main() {
  volatile yaclib_std::atomic<int> x{1};
  int a = ++x;
  int b = x++;
  int c = --x;
  int d = x--;
  return (a + b + c + d) == 0;
}
