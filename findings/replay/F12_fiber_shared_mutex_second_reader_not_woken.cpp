// F12: fiber shared_mutex — a writer's unlock wakes only ONE of the readers blocked in lock_shared().
// The second reader stays parked although the lock is held in shared mode (compatible with it); it is woken
// only when the first reader releases.  With std::shared_mutex both readers hold the lock together.
// Two readers that wait for each other while holding the shared lock (legal with std) never finish.
#include <yaclib/fault/config.hpp>
#include <yaclib/fault/detail/fiber/scheduler.hpp>
#include <yaclib_std/shared_mutex>
#include <yaclib_std/thread>
#include <cstdio>
#include <cstdlib>
static void Y() { yaclib_std::this_thread::yield(); }
static void body() {
  yaclib_std::shared_mutex m;
  int readers_inside = 0, max_inside = 0;
  bool r1_done = false, r2_done = false;
  m.lock();  // writer holds
  auto reader = [&](bool* done) {
    m.lock_shared();
    ++readers_inside;
    if (readers_inside > max_inside) max_inside = readers_inside;
    // wait (bounded) until the other reader is inside as well: legal with a shared lock
    for (int i = 0; i < 2000 && max_inside < 2; ++i) Y();
    --readers_inside;
    m.unlock_shared();
    *done = true;
  };
  yaclib_std::thread t1([&] { reader(&r1_done); });
  yaclib_std::thread t2([&] { reader(&r2_done); });
  for (int i = 0; i < 50; ++i) Y();  // both readers block in lock_shared()
  m.unlock();                         // the lock becomes available to BOTH readers
  for (int i = 0; i < 5000 && !(r1_done && r2_done); ++i) Y();
  t1.join();
  t2.join();
  std::printf("max readers holding the shared lock together = %d (expected 2)\n", max_inside);
  if (max_inside < 2) {
    std::printf("DEFECT: the second reader was not woken while the lock was available in shared mode\n");
    std::exit(3);
  }
  std::printf("OK\n");
}
int main() {
  yaclib::SetFaultFrequency(1u << 30);  // no random preemption: the schedule is fully explicit
  yaclib::fault::Scheduler scheduler;
  yaclib::fault::Scheduler::Set(&scheduler);
  yaclib_std::thread tests(body);
  tests.join();
  return 0;
}
