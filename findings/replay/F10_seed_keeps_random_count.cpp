// C17: "Restoring a recorded (random-count, injector-state) pair with ForwardToFaultRandomCount/SetInjectorState
// continues exactly as the original run continued from that point", also when the original run was started "again
// in the same process after re-seeding".
// FIBER configuration. Draws are observed through detail::GetRandNumber (the single entropy source every scheduling
// decision uses; declared in src/fault/util.hpp).
#include <yaclib/fault/config.hpp>

#include <cstdint>
#include <cstdio>
#include <vector>

namespace yaclib::detail {
std::uint64_t GetRandNumber(std::uint64_t max);
}

static std::vector<std::uint64_t> Draw(int n) {
  std::vector<std::uint64_t> v;
  for (int i = 0; i < n; ++i) {
    v.push_back(yaclib::detail::GetRandNumber(1000000));
  }
  return v;
}

int main() {
  // first run in this process
  yaclib::SetSeed(7);
  Draw(5);
  // the run of interest: started again in the same process after re-seeding
  yaclib::SetSeed(7);
  Draw(3);
  const auto recorded = yaclib::fiber::GetFaultRandomCount();  // point P of the second run
  const auto original = Draw(4);                               // how the original run continued from P
  // restore P
  yaclib::SetSeed(7);
  yaclib::fiber::ForwardToFaultRandomCount(recorded);
  const auto replay = Draw(4);
  std::printf("recorded random count at P = %llu (draws since the last SetSeed: 3)\n", (unsigned long long)recorded);
  bool same = original == replay;
  for (int i = 0; i < 4; ++i) {
    std::printf("  original %llu   replay %llu\n", (unsigned long long)original[i], (unsigned long long)replay[i]);
  }
  std::printf("%s\n", same ? "SAME: replay continues as the original did" : "DIVERGED: the recorded pair does not restore P");
  return same ? 0 : 3;
}
