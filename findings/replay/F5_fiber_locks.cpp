#include <yaclib/fault/config.hpp>
#include <yaclib/fault/detail/fiber/scheduler.hpp>
#include <yaclib_std/chrono>
#include <yaclib_std/mutex>
#include <yaclib_std/shared_mutex>
#include <yaclib_std/thread>
#include <cstdio>
#include <cstdlib>
using namespace std::chrono_literals;
static int mode;
static void Y() { yaclib_std::this_thread::yield(); }
void body() {
  if (mode == 0) {  // recursive_mutex: blocked locker never woken
    yaclib_std::recursive_mutex m;
    bool got = false;
    m.lock();
    yaclib_std::thread t([&] { m.lock(); got = true; m.unlock(); });
    for (int i = 0; i < 50; ++i) Y();   // let t block
    m.unlock();
    for (int i = 0; i < 200; ++i) Y();  // plenty of time
    printf("recursive_mutex: waiter acquired after unlock: %d (expected 1)\n", got);
    if (!got) { printf("DEFECT: lost wake-up in recursive_mutex\n"); exit(3); }
    t.join();
  } else if (mode == 1) {  // shared_mutex exclusive: two exclusive holders
    yaclib_std::shared_mutex m;
    int holders = 0, max_holders = 0;
    m.lock();
    yaclib_std::thread t([&] { m.lock(); ++holders; if (holders > max_holders) max_holders = holders; for (int i = 0; i < 20; ++i) Y(); --holders; m.unlock(); });
    for (int i = 0; i < 50; ++i) Y();   // let t block in lock()
    m.unlock();                          // wakes t (scheduled, not yet running unless yield injected)
    m.lock();                            // re-acquire immediately: _occupied is false
    ++holders; if (holders > max_holders) max_holders = holders;
    for (int i = 0; i < 50; ++i) Y();   // t resumes and takes the lock too
    if (holders > max_holders) max_holders = holders;
    --holders;
    m.unlock();
    t.join();
    printf("shared_mutex exclusive: max simultaneous exclusive holders = %d (expected 1)\n", max_holders);
    if (max_holders > 1) exit(3);
  } else if (mode == 2) {  // shared_timed_mutex: try_lock_for gives shared mode
    yaclib_std::shared_timed_mutex m;
    bool ok = m.try_lock_for(1ms);
    bool shared_ok = m.try_lock_shared();
    printf("shared_timed_mutex: try_lock_for=%d then try_lock_shared=%d (expected 1 then 0)\n", ok, shared_ok);
    if (shared_ok) exit(3);
  } else if (mode == 3) {  // timed_mutex double hold
    yaclib_std::timed_mutex m;
    int holders = 0, max_holders = 0;
    m.lock();
    yaclib_std::thread t([&] { bool r = m.try_lock_for(1000000ms); if (r) { ++holders; if (holders > max_holders) max_holders = holders; for (int i = 0; i < 20; ++i) Y(); --holders; m.unlock(); } });
    for (int i = 0; i < 50; ++i) Y();
    m.unlock();
    m.lock();
    ++holders; if (holders > max_holders) max_holders = holders;
    for (int i = 0; i < 50; ++i) Y();
    --holders;
    m.unlock();
    t.join();
    printf("timed_mutex: max simultaneous holders = %d (expected 1)\n", max_holders);
    if (max_holders > 1) exit(3);
  } else if (mode == 4) {  // plain mutex control
    yaclib_std::mutex m;
    int holders = 0, max_holders = 0;
    m.lock();
    yaclib_std::thread t([&] { m.lock(); ++holders; if (holders > max_holders) max_holders = holders; for (int i = 0; i < 20; ++i) Y(); --holders; m.unlock(); });
    for (int i = 0; i < 50; ++i) Y();
    m.unlock();
    m.lock();
    ++holders; if (holders > max_holders) max_holders = holders;
    for (int i = 0; i < 50; ++i) Y();
    --holders;
    m.unlock();
    t.join();
    printf("mutex (control): max simultaneous holders = %d (expected 1)\n", max_holders);
  }
}
int main(int argc, char** argv) {
  mode = argc > 1 ? atoi(argv[1]) : 0;
  yaclib::SetFaultFrequency(1u << 30);  // no random preemption: schedule is fully explicit
  yaclib::fault::Scheduler scheduler;
  yaclib::fault::Scheduler::Set(&scheduler);
  yaclib_std::thread tests(body);
  tests.join();
  return 0;
}
