// Type-level witnesses for C11 (compile-only; parsed with -fsyntax-only, never linked or run).
// Positive part: must compile.  Negative parts (-DWITNESS_FAIL=n): must NOT compile — the timed wait forms reject
// shared handles at compile time (a shared core cannot withdraw a registered callback after a timeout).
#include <yaclib/async/contract.hpp>
#include <yaclib/async/shared_contract.hpp>
#include <yaclib/async/wait.hpp>
#include <yaclib/async/wait_for.hpp>
#include <yaclib/async/wait_until.hpp>

#include <chrono>
#include <vector>

void Positive() {
  auto f = yaclib::MakeContract<int>().first;
  auto s = yaclib::MakeSharedContract<int>().first;
  std::vector<yaclib::SharedFuture<int>> ss;
  yaclib::Wait(f);
  yaclib::Wait(s);
  yaclib::Wait(f, s);
  yaclib::Wait(ss.begin(), ss.end());
  (void)yaclib::WaitFor(std::chrono::seconds(1), f);
  (void)yaclib::WaitUntil(std::chrono::steady_clock::now(), f);
}

#if WITNESS_FAIL == 1
void Negative1() {
  auto s = yaclib::MakeSharedContract<int>().first;
  (void)yaclib::WaitFor(std::chrono::seconds(1), s);
}
#elif WITNESS_FAIL == 2
void Negative2() {
  auto s = yaclib::MakeSharedContract<int>().first;
  (void)yaclib::WaitUntil(std::chrono::steady_clock::now(), s);
}
#elif WITNESS_FAIL == 3
void Negative3() {
  auto f = yaclib::MakeContract<int>().first;
  auto s = yaclib::MakeSharedContract<int>().first;
  (void)yaclib::WaitFor(std::chrono::seconds(1), f, s);
}
#elif WITNESS_FAIL == 4
void Negative4() {
  std::vector<yaclib::SharedFuture<int>> ss;
  (void)yaclib::WaitFor(std::chrono::seconds(1), ss.begin(), ss.end());
}
#endif
