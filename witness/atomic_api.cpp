// Positive compile witnesses for C19: every operation std::atomic<T> offers must be WELL-FORMED on yaclib_std::atomic<T>
// in the fault-injection backends (a body that does not compile cannot "return the same values as std::atomic").
// One operation per WITNESS value, so that a failure names the operation.  Parsed with -fsyntax-only, never executed.
#include <yaclib_std/atomic>

#ifndef WITNESS
#define WITNESS 0
#endif

using A = yaclib_std::atomic<long>;
using P = yaclib_std::atomic<int*>;

long witness() {
  A a{1};
  volatile A& v = a;
  static int arr[4];
  P p{arr};
  volatile P& vp = p;
  long x = 2;
  (void)v;
  (void)vp;
  (void)x;
#if WITNESS == 0
  return a.load();                                   // control: must always compile
#elif WITNESS == 1
  a = 5;                                             // assignment from T
  return a.load();
#elif WITNESS == 2
  return (v = 5);                                    // assignment from T, volatile
#elif WITNESS == 3
  return ++v + v++ + --v + v--;                      // increment / decrement, volatile, integral
#elif WITNESS == 4
  return (++vp == vp++) + (--vp == vp--);            // increment / decrement, volatile, pointer
#elif WITNESS == 5
  return v.compare_exchange_weak(x, 3) + v.compare_exchange_strong(x, 3) +
         v.compare_exchange_weak(x, 3, std::memory_order_seq_cst, std::memory_order_seq_cst) +
         v.compare_exchange_strong(x, 3, std::memory_order_seq_cst, std::memory_order_seq_cst);   // CAS, volatile
#elif WITNESS == 6
  return v.fetch_add(1) + v.fetch_sub(1) + (v += 1) + (v -= 1);           // arithmetic, volatile
#elif WITNESS == 7
  return v.fetch_and(1) + v.fetch_or(1) + v.fetch_xor(1) + (v &= 1) + (v |= 1) + (v ^= 1);   // bit operations, volatile
#elif WITNESS == 8
  v.store(1);
  return v.load() + v.exchange(2) + static_cast<long>(v);                  // load / store / exchange / conversion, volatile
#elif WITNESS == 9
  return ++a + a++ + --a + a-- + (++p == p++) + (--p == p--);              // increment / decrement, non-volatile
#elif WITNESS == 10
  return static_cast<long>(a) + (p.load() == arr);                         // conversion operator
#endif
}
