// yaclint — fact extractor for the YACLib static checks (LibTooling, clang 14).
//
// For one translation unit it writes one JSON file with
//   * every non-dependent function *definition* (including implicit template instantiations and
//     lambda call operators) whose source location lies under one of the --roots,
//     as a statement table + clang CFG (all sub-expressions, implicit destructors, initializers),
//   * every class definition under the roots (bases, fields, virtual table),
//   * enums and namespace-scope variables under the roots.
// Nothing is executed; the rules (python) only read these facts.
//
// usage: yaclint -o out.json --roots=/repo/include,/repo/src file.cpp -- <compile flags>
#include "clang/AST/ASTConsumer.h"
#include "clang/AST/ASTContext.h"
#include "clang/AST/DeclCXX.h"
#include "clang/AST/DeclTemplate.h"
#include "clang/AST/ExprCXX.h"
#include "clang/AST/Mangle.h"
#include "clang/AST/RecursiveASTVisitor.h"
#include "clang/AST/StmtCXX.h"
#include "clang/Analysis/CFG.h"
#include "clang/Basic/SourceManager.h"
#include "clang/Frontend/CompilerInstance.h"
#include "clang/Frontend/FrontendAction.h"
#include "clang/Tooling/CommonOptionsParser.h"
#include "clang/Tooling/Tooling.h"
#include "llvm/Support/CommandLine.h"
#include "llvm/Support/raw_ostream.h"

#include <map>
#include <set>
#include <string>
#include <unordered_map>
#include <vector>

using namespace clang;
using namespace clang::tooling;

static llvm::cl::OptionCategory Cat("yaclint");
static llvm::cl::opt<std::string> OutPath("o", llvm::cl::desc("output json"), llvm::cl::Required, llvm::cl::cat(Cat));
static llvm::cl::opt<std::string> Roots("roots", llvm::cl::desc("comma separated source roots"), llvm::cl::Required,
                                        llvm::cl::cat(Cat));

namespace {

std::vector<std::string> gRoots;
unsigned gErrors = 0;

bool UnderRoots(llvm::StringRef f) {
  for (auto& r : gRoots) {
    if (f.startswith(r)) {
      return true;
    }
  }
  return false;
}

struct Json {
  std::string s;
  void raw(llvm::StringRef r) {
    s.append(r.begin(), r.end());
  }
  void str(llvm::StringRef v) {
    s.push_back('"');
    for (unsigned char c : v) {
      switch (c) {
        case '"':
          s += "\\\"";
          break;
        case '\\':
          s += "\\\\";
          break;
        case '\n':
          s += "\\n";
          break;
        case '\t':
          s += "\\t";
          break;
        case '\r':
          s += "\\r";
          break;
        default:
          if (c < 0x20) {
            char b[8];
            snprintf(b, sizeof b, "\\u%04x", c);
            s += b;
          } else {
            s.push_back(static_cast<char>(c));
          }
      }
    }
    s.push_back('"');
  }
  void num(long long v) {
    s += std::to_string(v);
  }
};

class Extractor {
 public:
  explicit Extractor(ASTContext& c)
    : C(c), SM(c.getSourceManager()), PP(c.getPrintingPolicy()), MC(c.createMangleContext()) {
    PP.SuppressTagKeyword = true;
    PP.SuppressUnwrittenScope = false;
    PP.Bool = true;
    PP.TerseOutput = true;
    PP.FullyQualifiedName = true;
    PP.AnonymousTagLocations = true;
  }

  ASTContext& C;
  SourceManager& SM;
  PrintingPolicy PP;
  std::unique_ptr<MangleContext> MC;

  std::vector<std::string> strings;
  std::unordered_map<std::string, unsigned> strIdx;
  std::vector<std::string> fnJson, recJson, enumJson, varJson, tmplJson;
  std::set<const Decl*> seenFn, seenRec, seenEnum, seenVar, seenTmpl;

  unsigned S(const std::string& s) {
    auto it = strIdx.find(s);
    if (it != strIdx.end()) {
      return it->second;
    }
    unsigned i = strings.size();
    strings.push_back(s);
    strIdx.emplace(s, i);
    return i;
  }

  std::string FileOf(SourceLocation L, unsigned* line = nullptr, unsigned* col = nullptr) {
    if (L.isInvalid()) {
      return "";
    }
    auto P = SM.getPresumedLoc(SM.getExpansionLoc(L));
    if (!P.isValid()) {
      return "";
    }
    if (line) {
      *line = P.getLine();
    }
    if (col) {
      *col = P.getColumn();
    }
    return P.getFilename();
  }

  std::string TypeStr(QualType T) {
    if (T.isNull()) {
      return "";
    }
    return T.getCanonicalType().getAsString(PP);
  }

  std::string RecName(const CXXRecordDecl* RD) {
    if (!RD) {
      return "";
    }
    if (RD->isLambda()) {
      unsigned l = 0, c = 0;
      std::string f = FileOf(RD->getLocation(), &l, &c);
      return "(lambda " + f + ":" + std::to_string(l) + ":" + std::to_string(c) + ")";
    }
    if (const auto* T = RD->getTypeForDecl()) {
      return TypeStr(QualType(T, 0));
    }
    return RD->getQualifiedNameAsString();
  }

  std::string Mangle(const NamedDecl* D) {
    if (!D) {
      return "";
    }
    if (const auto* FD = dyn_cast<FunctionDecl>(D)) {
      if (FD->isDependentContext() || FD->getType()->isDependentType()) {
        return "dep:" + FD->getQualifiedNameAsString();
      }
    }
    std::string out;
    llvm::raw_string_ostream os(out);
    if (const auto* CD = dyn_cast<CXXConstructorDecl>(D)) {
      MC->mangleName(GlobalDecl(CD, Ctor_Complete), os);
    } else if (const auto* DD = dyn_cast<CXXDestructorDecl>(D)) {
      MC->mangleName(GlobalDecl(DD, Dtor_Complete), os);
    } else if (isa<FunctionDecl>(D) || isa<VarDecl>(D)) {
      if (MC->shouldMangleDeclName(D)) {
        MC->mangleName(GlobalDecl(cast<ValueDecl>(D)), os);
      } else {
        os << D->getNameAsString();
      }
    } else {
      os << D->getQualifiedNameAsString();
    }
    os.flush();
    return out;
  }

  static std::string ArgToString(const TemplateArgument& A, const PrintingPolicy& PP, ASTContext& C) {
    std::string out;
    llvm::raw_string_ostream os(out);
    switch (A.getKind()) {
      case TemplateArgument::Integral:
        os << toString(A.getAsIntegral(), 10);
        break;
      case TemplateArgument::Type:
        os << A.getAsType().getCanonicalType().getAsString(PP);
        break;
      case TemplateArgument::Pack: {
        os << "<";
        bool first = true;
        for (const auto& P : A.pack_elements()) {
          if (!first) {
            os << ", ";
          }
          first = false;
          os << ArgToString(P, PP, C);
        }
        os << ">";
        break;
      }
      default:
        A.print(PP, os, true);
    }
    os.flush();
    return out;
  }

  void TArgs(Json& J, const TemplateArgumentList* L) {
    J.raw("[");
    if (L) {
      for (unsigned i = 0; i < L->size(); ++i) {
        if (i) {
          J.raw(",");
        }
        J.num(S(ArgToString(L->get(i), PP, C)));
      }
    }
    J.raw("]");
  }


  // enum-valued template arguments (policies), collected through nested class template specialisations:
  // "yaclib::FailPolicy=1"
  void EnumArgsOf(const TemplateArgument& A, std::vector<std::string>& out, int depth) {
    if (depth > 5) {
      return;
    }
    switch (A.getKind()) {
      case TemplateArgument::Integral: {
        QualType T = A.getIntegralType();
        if (const auto* ET = T->getAs<EnumType>()) {
          out.push_back(ET->getDecl()->getQualifiedNameAsString() + "=" + toString(A.getAsIntegral(), 10));
        }
        break;
      }
      case TemplateArgument::Type: {
        QualType T = A.getAsType().getCanonicalType();
        while (!T.isNull() && (T->isPointerType() || T->isReferenceType())) {
          T = T->getPointeeType();
        }
        if (T.isNull()) {
          break;
        }
        if (const auto* RD = T->getAsCXXRecordDecl()) {
          EnumArgsOfRecord(RD, out, depth + 1);
        }
        break;
      }
      case TemplateArgument::Pack:
        for (const auto& P : A.pack_elements()) {
          EnumArgsOf(P, out, depth + 1);
        }
        break;
      default:
        break;
    }
  }
  void EnumArgsOfRecord(const CXXRecordDecl* RD, std::vector<std::string>& out, int depth) {
    if (depth > 5 || RD == nullptr) {
      return;
    }
    if (const auto* CTS = dyn_cast<ClassTemplateSpecializationDecl>(RD)) {
      const auto& L = CTS->getTemplateArgs();
      for (unsigned i = 0; i < L.size(); ++i) {
        EnumArgsOf(L.get(i), out, depth + 1);
      }
    }
    if (const auto* P = dyn_cast_or_null<CXXRecordDecl>(RD->getDeclContext())) {
      EnumArgsOfRecord(P, out, depth + 1);
    }
  }
  void EnumArgs(Json& J, const char* name, const FunctionDecl* FD) {
    std::vector<std::string> out;
    if (const auto* TA = FD->getTemplateSpecializationArgs()) {
      for (unsigned i = 0; i < TA->size(); ++i) {
        EnumArgsOf(TA->get(i), out, 0);
      }
    }
    if (const auto* MD = dyn_cast<CXXMethodDecl>(FD)) {
      EnumArgsOfRecord(MD->getParent(), out, 0);
    }
    if (out.empty()) {
      return;
    }
    std::sort(out.begin(), out.end());
    out.erase(std::unique(out.begin(), out.end()), out.end());
    J.raw(std::string(",\"") + name + "\":[");
    for (unsigned i = 0; i < out.size(); ++i) {
      if (i) {
        J.raw(",");
      }
      J.num(S(out[i]));
    }
    J.raw("]");
  }

  // ------------------------------------------------------------------ per function state
  struct FnCtx {
    std::unordered_map<const Stmt*, unsigned> id;
    std::vector<std::string> nodes;  // json of each node
    std::unordered_map<const Decl*, unsigned> local;
    std::vector<std::string> locals;  // json
    std::string file;
    const FunctionDecl* FD = nullptr;
  };

  int LocalId(FnCtx& X, const ValueDecl* D) {
    if (!D) {
      return -1;
    }
    auto it = X.local.find(D);
    if (it != X.local.end()) {
      return it->second;
    }
    bool isLocal = false;
    if (const auto* VD = dyn_cast<VarDecl>(D)) {
      isLocal = VD->isLocalVarDeclOrParm();
    } else if (isa<BindingDecl>(D)) {
      isLocal = true;
    }
    if (!isLocal) {
      return -1;
    }
    unsigned i = X.locals.size();
    X.local.emplace(D, i);
    Json J;
    J.raw("{\"n\":");
    J.num(S(D->getNameAsString()));
    J.raw(",\"t\":");
    J.num(S(TypeStr(D->getType())));
    J.raw(",\"p\":");
    J.raw(isa<ParmVarDecl>(D) ? "1" : "0");
    if (const auto* VD = dyn_cast<VarDecl>(D)) {
      if (VD->isStaticLocal()) {
        J.raw(",\"static\":1");
      }
    }
    J.raw("}");
    X.locals.push_back(J.s);
    return i;
  }

  void CalleeInfo(Json& J, const FunctionDecl* FD, bool virt) {
    if (!FD) {
      return;
    }
    J.raw(",\"cn\":");
    J.num(S(FD->getQualifiedNameAsString()));
    J.raw(",\"ck\":");
    J.num(S(Mangle(FD)));
    if (virt) {
      J.raw(",\"virt\":1");
    }
    // an inline / constexpr function that is used but has no definition anywhere in this translation unit:
    // every such use is ill-formed (no diagnostic required) and fails to link
    if (FD->isInlined() && !FD->isDefined() && !FD->isDeleted() && !FD->isDefaulted() && !FD->getBuiltinID() &&
        !FD->isPure() && !FD->isImplicit()) {
      J.raw(",\"ui\":1");
    }
    if (const auto* MD = dyn_cast<CXXMethodDecl>(FD)) {
      J.raw(",\"cr\":");
      J.num(S(RecName(MD->getParent())));
      if (MD->isVirtual()) {
        J.raw(",\"cvm\":1");
      }
    }
    if (const auto* TA = FD->getTemplateSpecializationArgs()) {
      J.raw(",\"cta\":");
      TArgs(J, TA);
    }
    EnumArgs(J, "cpe", FD);
  }

  unsigned IdOf(FnCtx& X, const Stmt* St) {
    auto it = X.id.find(St);
    if (it != X.id.end()) {
      return it->second;
    }
    // children first (post-order ids are not required, but handy)
    std::vector<int> ch;
    for (const Stmt* Ch : St->children()) {
      ch.push_back(Ch ? static_cast<int>(IdOf(X, Ch)) : -1);
    }
    // a default member initialiser used by a constructor: its expression is the (only) child
    if (const auto* DIE = dyn_cast<CXXDefaultInitExpr>(St)) {
      if (const Expr* E = DIE->getExpr()) {
        ch.push_back(static_cast<int>(IdOf(X, E)));
      }
    }
    unsigned me = X.nodes.size();
    X.nodes.emplace_back();
    X.id.emplace(St, me);

    Json J;
    J.raw("{\"k\":");
    J.num(S(St->getStmtClassName()));
    if (!ch.empty()) {
      J.raw(",\"ch\":[");
      for (size_t i = 0; i < ch.size(); ++i) {
        if (i) {
          J.raw(",");
        }
        J.num(ch[i]);
      }
      J.raw("]");
    }
    unsigned line = 0, col = 0;
    std::string f = FileOf(St->getBeginLoc(), &line, &col);
    J.raw(",\"l\":");
    J.num(line);
    if (!f.empty() && f != X.file) {
      J.raw(",\"fl\":");
      J.num(S(f));
    }

    if (const auto* E = dyn_cast<Expr>(St)) {
      J.raw(",\"t\":");
      J.num(S(TypeStr(E->getType())));
      if (E->isGLValue()) {
        J.raw(",\"lv\":1");
      }
      // constant value
      if (!E->isValueDependent() && !E->isTypeDependent() && !E->containsErrors()) {
        QualType T = E->getType();
        if (!T.isNull() && (T->isIntegralOrEnumerationType())) {
          Expr::EvalResult R;
          if (E->EvaluateAsInt(R, C, Expr::SE_NoSideEffects) && R.Val.isInt()) {
            J.raw(",\"v\":");
            J.raw(toString(R.Val.getInt(), 10));
          }
        } else if (!T.isNull() && (T->isPointerType() || T->isNullPtrType())) {
          if (E->isPRValue() && E->isNullPointerConstant(C, Expr::NPC_NeverValueDependent) != Expr::NPCK_NotNull) {
            J.raw(",\"v\":0");
          }
        }
      }
    }

    if (const auto* DR = dyn_cast<DeclRefExpr>(St)) {
      const ValueDecl* D = DR->getDecl();
      J.raw(",\"dn\":");
      J.num(S(D->getQualifiedNameAsString()));
      J.raw(",\"dk\":");
      J.num(S(D->getDeclKindName()));
      int lid = LocalId(X, D);
      if (lid >= 0) {
        J.raw(",\"id\":");
        J.num(lid);
      }
      if (const auto* FD = dyn_cast<FunctionDecl>(D)) {
        J.raw(",\"fk\":");
        J.num(S(Mangle(FD)));
      } else if (const auto* VD = dyn_cast<VarDecl>(D)) {
        if (lid < 0) {
          J.raw(",\"gv\":1");
          if (VD->getTLSKind() != VarDecl::TLS_None) {
            J.raw(",\"tls\":1");
          }
        }
      }
    } else if (const auto* ME = dyn_cast<MemberExpr>(St)) {
      const ValueDecl* D = ME->getMemberDecl();
      J.raw(",\"dn\":");
      J.num(S(D->getQualifiedNameAsString()));
      J.raw(",\"dk\":");
      J.num(S(D->getDeclKindName()));
      J.raw(",\"mn\":");
      J.num(S(D->getNameAsString()));
      if (ME->isArrow()) {
        J.raw(",\"arrow\":1");
      }
      if (ME->hasQualifier()) {
        J.raw(",\"qual\":1");
      }
      if (const auto* FD = dyn_cast<FieldDecl>(D)) {
        J.raw(",\"fr\":");
        J.num(S(RecName(dyn_cast<CXXRecordDecl>(FD->getParent()))));
      }
    } else if (const auto* CE = dyn_cast<CallExpr>(St)) {
      const FunctionDecl* FD = CE->getDirectCallee();
      bool virt = false;
      if (const auto* MC2 = dyn_cast<CXXMemberCallExpr>(CE)) {
        const auto* MD = MC2->getMethodDecl();
        if (MD && MD->isVirtual()) {
          const auto* ME = dyn_cast<MemberExpr>(MC2->getCallee()->IgnoreParens());
          virt = !(ME && ME->hasQualifier());
        }
        if (const Expr* Obj = MC2->getImplicitObjectArgument()) {
          J.raw(",\"obj\":");
          J.num(IdOf(X, Obj));
          QualType OT = Obj->getType();
          if (OT->isPointerType()) {
            OT = OT->getPointeeType();
          }
          J.raw(",\"ot\":");
          J.num(S(TypeStr(OT.getUnqualifiedType())));
        }
      }
      if (const auto* OC = dyn_cast<CXXOperatorCallExpr>(CE)) {
        J.raw(",\"op\":");
        J.num(S(getOperatorSpelling(OC->getOperator())));
        if (const auto* MD = dyn_cast_or_null<CXXMethodDecl>(FD)) {
          if (MD->isVirtual()) {
            virt = true;
          }
        }
      }
      CalleeInfo(J, FD, virt);
      J.raw(",\"args\":[");
      for (unsigned i = 0; i < CE->getNumArgs(); ++i) {
        if (i) {
          J.raw(",");
        }
        J.num(IdOf(X, CE->getArg(i)));
      }
      J.raw("]");
    } else if (const auto* CC = dyn_cast<CXXConstructExpr>(St)) {
      CalleeInfo(J, CC->getConstructor(), false);
      J.raw(",\"args\":[");
      for (unsigned i = 0; i < CC->getNumArgs(); ++i) {
        if (i) {
          J.raw(",");
        }
        J.num(IdOf(X, CC->getArg(i)));
      }
      J.raw("]");
    } else if (const auto* BO = dyn_cast<BinaryOperator>(St)) {
      J.raw(",\"op\":");
      J.num(S(BO->getOpcodeStr().str()));
    } else if (const auto* UO = dyn_cast<UnaryOperator>(St)) {
      J.raw(",\"op\":");
      J.num(S(UnaryOperator::getOpcodeStr(UO->getOpcode()).str()));
      J.raw(UO->isPostfix() ? ",\"post\":1" : "");
    } else if (const auto* CA = dyn_cast<CastExpr>(St)) {
      J.raw(",\"cast\":");
      J.num(S(CA->getCastKindName()));
    } else if (const auto* NE = dyn_cast<CXXNewExpr>(St)) {
      J.raw(",\"at\":");
      J.num(S(TypeStr(NE->getAllocatedType())));
      J.raw(",\"npl\":");
      J.num(NE->getNumPlacementArgs());
      if (NE->getOperatorNew()) {
        J.raw(",\"cn\":");
        J.num(S(NE->getOperatorNew()->getQualifiedNameAsString()));
        J.raw(",\"rsv\":");
        J.raw(NE->getOperatorNew()->isReservedGlobalPlacementOperator() ? "1" : "0");
      }
      if (const auto* CE2 = NE->getConstructExpr()) {
        J.raw(",\"ctor\":");
        J.num(IdOf(X, CE2));
      }
    } else if (const auto* DE = dyn_cast<CXXDeleteExpr>(St)) {
      J.raw(",\"dt\":");
      J.num(S(TypeStr(DE->getDestroyedType())));
    } else if (const auto* DS = dyn_cast<DeclStmt>(St)) {
      J.raw(",\"vars\":[");
      bool first = true;
      for (const Decl* D : DS->decls()) {
        const auto* VD = dyn_cast<VarDecl>(D);
        if (!VD) {
          continue;
        }
        if (!first) {
          J.raw(",");
        }
        first = false;
        J.raw("{\"id\":");
        J.num(LocalId(X, VD));
        if (VD->hasInit()) {
          J.raw(",\"init\":");
          J.num(IdOf(X, VD->getInit()));
        }
        J.raw("}");
      }
      J.raw("]");
    } else if (const auto* LE = dyn_cast<LambdaExpr>(St)) {
      if (const auto* CO = LE->getCallOperator()) {
        J.raw(",\"lam\":");
        J.num(S(Mangle(CO)));
        EmitFunction(CO);
      }
      // generic lambda: the call operator is a template; its instantiations are separate functions
      if (const auto* RD = LE->getLambdaClass()) {
        if (const auto* FT = RD->getDependentLambdaCallOperator()) {
          J.raw(",\"lams\":[");
          bool first = true;
          for (const FunctionDecl* Sp : FT->specializations()) {
            if (!Sp->doesThisDeclarationHaveABody()) {
              continue;
            }
            if (!first) {
              J.raw(",");
            }
            first = false;
            J.num(S(Mangle(Sp)));
            EmitFunction(Sp);
          }
          J.raw("]");
        }
      }
    } else if (const auto* IS = dyn_cast<IfStmt>(St)) {
      if (IS->isConstexpr()) {
        J.raw(",\"cexpr\":1");
      }
      if (IS->getCond()) {
        J.raw(",\"cond\":");
        J.num(IdOf(X, IS->getCond()));
      }
      if (IS->getThen()) {
        J.raw(",\"then\":");
        J.num(IdOf(X, IS->getThen()));
      }
      if (IS->getElse()) {
        J.raw(",\"else\":");
        J.num(IdOf(X, IS->getElse()));
      }
    } else if (const auto* WS = dyn_cast<WhileStmt>(St)) {
      J.raw(",\"cond\":");
      J.num(IdOf(X, WS->getCond()));
      J.raw(",\"body\":");
      J.num(IdOf(X, WS->getBody()));
    } else if (const auto* DoS = dyn_cast<DoStmt>(St)) {
      J.raw(",\"cond\":");
      J.num(IdOf(X, DoS->getCond()));
      J.raw(",\"body\":");
      J.num(IdOf(X, DoS->getBody()));
    } else if (const auto* FS = dyn_cast<ForStmt>(St)) {
      if (FS->getCond()) {
        J.raw(",\"cond\":");
        J.num(IdOf(X, FS->getCond()));
      }
      if (FS->getBody()) {
        J.raw(",\"body\":");
        J.num(IdOf(X, FS->getBody()));
      }
    } else if (const auto* DA = dyn_cast<CXXDefaultArgExpr>(St)) {
      (void)DA;
      J.raw(",\"defarg\":1");
    } else if (const auto* SL = dyn_cast<StringLiteral>(St)) {
      if (SL->isAscii() && SL->getLength() < 200) {
        J.raw(",\"lit\":");
        J.str(SL->getString());
      }
    } else if (const auto* FL = dyn_cast<FloatingLiteral>(St)) {
      J.raw(",\"fv\":");
      J.str(std::to_string(FL->getValueAsApproximateDouble()));
    } else if (const auto* TE = dyn_cast<CXXTemporaryObjectExpr>(St)) {
      (void)TE;
    } else if (const auto* PD = dyn_cast<CXXPseudoDestructorExpr>(St)) {
      J.raw(",\"pdt\":");
      J.num(S(TypeStr(PD->getDestroyedType())));
    } else if (const auto* UE = dyn_cast<UnaryExprOrTypeTraitExpr>(St)) {
      (void)UE;
    }
    J.raw("}");
    X.nodes[me] = std::move(J.s);
    return me;
  }

  void EmitCFG(FnCtx& X, Json& J, const FunctionDecl* FD) {
    CFG::BuildOptions BO;
    BO.AddImplicitDtors = true;
    BO.AddTemporaryDtors = true;
    BO.AddInitializers = true;
    BO.setAllAlwaysAdd();
    std::unique_ptr<CFG> cfg = CFG::buildCFG(FD, FD->getBody(), &C, BO);
    if (!cfg) {
      J.raw("null");
      return;
    }
    J.raw("{\"entry\":");
    J.num(cfg->getEntry().getBlockID());
    J.raw(",\"exit\":");
    J.num(cfg->getExit().getBlockID());
    J.raw(",\"blocks\":[");
    bool firstB = true;
    for (const CFGBlock* B : *cfg) {
      if (!firstB) {
        J.raw(",");
      }
      firstB = false;
      J.raw("{\"id\":");
      J.num(B->getBlockID());
      J.raw(",\"el\":[");
      bool firstE = true;
      for (const CFGElement& E : *B) {
        Json EJ;
        if (auto CS = E.getAs<CFGStmt>()) {
          EJ.num(IdOf(X, CS->getStmt()));
        } else if (auto CI = E.getAs<CFGInitializer>()) {
          const CXXCtorInitializer* I = CI->getInitializer();
          EJ.raw("{\"init\":");
          if (I->isAnyMemberInitializer()) {
            EJ.num(S(I->getAnyMember()->getQualifiedNameAsString()));
          } else if (I->isBaseInitializer()) {
            EJ.num(S("base:" + TypeStr(QualType(I->getBaseClass(), 0))));
          } else {
            EJ.num(S("delegating"));
          }
          if (I->getInit()) {
            EJ.raw(",\"e\":");
            EJ.num(IdOf(X, I->getInit()));
          }
          EJ.raw("}");
        } else if (auto CD = E.getAs<CFGImplicitDtor>()) {
          const char* kind = "dtor";
          int var = -1;
          int tmp = -1;
          std::string what;
          switch (E.getKind()) {
            case CFGElement::AutomaticObjectDtor: {
              kind = "auto";
              const VarDecl* VD = E.castAs<CFGAutomaticObjDtor>().getVarDecl();
              var = LocalId(X, VD);
              what = VD->getNameAsString();
              break;
            }
            case CFGElement::TemporaryDtor: {
              kind = "temp";
              const CXXBindTemporaryExpr* BT = E.castAs<CFGTemporaryDtor>().getBindTemporaryExpr();
              tmp = IdOf(X, BT);
              break;
            }
            case CFGElement::MemberDtor: {
              kind = "member";
              what = E.castAs<CFGMemberDtor>().getFieldDecl()->getQualifiedNameAsString();
              break;
            }
            case CFGElement::BaseDtor: {
              kind = "base";
              what = TypeStr(QualType(E.castAs<CFGBaseDtor>().getBaseSpecifier()->getType()));
              break;
            }
            case CFGElement::DeleteDtor: {
              kind = "delete";
              tmp = IdOf(X, E.castAs<CFGDeleteDtor>().getDeleteExpr());
              break;
            }
            default:
              break;
          }
          EJ.raw("{\"dtor\":");
          EJ.str(kind);
          const CXXDestructorDecl* DD = CD->getDestructorDecl(C);
          if (DD) {
            EJ.raw(",\"cn\":");
            EJ.num(S(DD->getQualifiedNameAsString()));
            EJ.raw(",\"ck\":");
            EJ.num(S(Mangle(DD)));
            EJ.raw(",\"cr\":");
            EJ.num(S(RecName(DD->getParent())));
          }
          if (var >= 0) {
            EJ.raw(",\"var\":");
            EJ.num(var);
          }
          if (tmp >= 0) {
            EJ.raw(",\"e\":");
            EJ.num(tmp);
          }
          if (!what.empty()) {
            EJ.raw(",\"what\":");
            EJ.num(S(what));
          }
          EJ.raw("}");
        } else {
          continue;  // scope / lifetime / loop-exit / new-allocator elements are not requested
        }
        if (!firstE) {
          J.raw(",");
        }
        firstE = false;
        J.raw(EJ.s);
      }
      J.raw("],\"succ\":[");
      bool firstS = true;
      for (auto I = B->succ_begin(); I != B->succ_end(); ++I) {
        if (!firstS) {
          J.raw(",");
        }
        firstS = false;
        const CFGBlock* R = I->getReachableBlock();
        if (R) {
          J.num(R->getBlockID());
        } else {
          J.raw("null");
        }
      }
      J.raw("]");
      // possibly-unreachable successors (pruned edges), for diagnostics only
      if (const Stmt* T = B->getTerminatorStmt()) {
        J.raw(",\"term\":");
        J.num(IdOf(X, T));
        J.raw(",\"tk\":");
        switch (B->getTerminator().getKind()) {
          case CFGTerminator::StmtBranch:
            J.str("stmt");
            break;
          case CFGTerminator::TemporaryDtorsBranch:
            J.str("tempdtor");
            break;
          case CFGTerminator::VirtualBaseBranch:
            J.str("vbase");
            break;
        }
        if (const Stmt* Cond = B->getTerminatorCondition(false)) {
          J.raw(",\"cond\":");
          J.num(IdOf(X, Cond));
        }
      }
      if (B->hasNoReturnElement()) {
        J.raw(",\"noret\":1");
      }
      J.raw("}");
    }
    J.raw("]}");
  }

  bool WantLoc(SourceLocation L) {
    std::string f = FileOf(L);
    return !f.empty() && UnderRoots(f);
  }

  void EmitFunction(const FunctionDecl* FD) {
    if (!FD || !FD->doesThisDeclarationHaveABody()) {
      return;
    }
    if (FD->isDependentContext() || FD->getType()->isDependentType()) {
      return;
    }
    if (!WantLoc(FD->getLocation())) {
      return;
    }
    if (!seenFn.insert(FD).second) {
      return;
    }
    const Stmt* Body = FD->getBody();
    if (!Body) {
      return;
    }
    FnCtx X;
    X.FD = FD;
    unsigned line = 0, col = 0;
    X.file = FileOf(FD->getLocation(), &line, &col);

    Json J;
    J.raw("{\"key\":");
    J.num(S(Mangle(FD)));
    J.raw(",\"qn\":");
    J.num(S(FD->getQualifiedNameAsString()));
    J.raw(",\"n\":");
    J.num(S(FD->getNameAsString()));
    J.raw(",\"file\":");
    J.num(S(X.file));
    J.raw(",\"line\":");
    J.num(line);
    unsigned eline = 0;
    FileOf(FD->getEndLoc(), &eline);
    J.raw(",\"eline\":");
    J.num(eline);
    J.raw(",\"ret\":");
    J.num(S(TypeStr(FD->getReturnType())));
    if (const auto* FPT = FD->getType()->getAs<FunctionProtoType>()) {
      if (FPT->isNothrow()) {
        J.raw(",\"noexcept\":1");
      }
    }
    if (const auto* MD = dyn_cast<CXXMethodDecl>(FD)) {
      const CXXRecordDecl* RD = MD->getParent();
      J.raw(",\"cls\":");
      J.num(S(RecName(RD)));
      J.raw(",\"clsq\":");
      J.num(S(RD->getQualifiedNameAsString()));
      if (const auto* CTS = dyn_cast<ClassTemplateSpecializationDecl>(RD)) {
        J.raw(",\"cta\":");
        TArgs(J, &CTS->getTemplateArgs());
      }
      if (MD->isVirtual()) {
        J.raw(",\"virtual\":1");
        J.raw(",\"ov\":[");
        bool first = true;
        for (const CXXMethodDecl* O : MD->overridden_methods()) {
          if (!first) {
            J.raw(",");
          }
          first = false;
          J.num(S(Mangle(O)));
        }
        J.raw("]");
      }
      if (MD->isConst()) {
        J.raw(",\"const\":1");
      }
      if (MD->isStatic()) {
        J.raw(",\"static\":1");
      }
      if (MD->isVolatile()) {
        J.raw(",\"volatile\":1");
      }
      if (RD->isLambda()) {
        J.raw(",\"lambda\":1");
        // enclosing function
        const DeclContext* DC = RD->getDeclContext();
        while (DC && !isa<FunctionDecl>(DC)) {
          DC = DC->getParent();
        }
        if (DC) {
          J.raw(",\"parent\":");
          J.num(S(Mangle(cast<FunctionDecl>(DC))));
        }
      }
      if (isa<CXXConstructorDecl>(MD)) {
        J.raw(",\"ctor\":1");
      }
      if (isa<CXXDestructorDecl>(MD)) {
        J.raw(",\"dtor\":1");
      }
    }
    if (const auto* TA = FD->getTemplateSpecializationArgs()) {
      J.raw(",\"fta\":");
      TArgs(J, TA);
    }
    EnumArgs(J, "pe", FD);
    if (FD->isExternC()) {
      J.raw(",\"externc\":1");
    }
    // parameters first so that they get the first local ids
    J.raw(",\"params\":[");
    for (unsigned i = 0; i < FD->getNumParams(); ++i) {
      if (i) {
        J.raw(",");
      }
      J.num(LocalId(X, FD->getParamDecl(i)));
    }
    J.raw("]");

    bool coroutine = isa<CoroutineBodyStmt>(Body);
    if (coroutine) {
      J.raw(",\"coroutine\":1");
    }
    std::string cfgJson;
    {
      Json CJ;
      if (coroutine) {
        CJ.raw("null");
      } else {
        EmitCFG(X, CJ, FD);
      }
      cfgJson = std::move(CJ.s);
    }
    unsigned bodyId = IdOf(X, Body);
    // constructor initializers that the CFG may not have referenced
    if (const auto* CD = dyn_cast<CXXConstructorDecl>(FD)) {
      J.raw(",\"inits\":[");
      bool first = true;
      for (const CXXCtorInitializer* I : CD->inits()) {
        if (!I->getInit()) {
          continue;
        }
        if (!first) {
          J.raw(",");
        }
        first = false;
        J.raw("{\"what\":");
        if (I->isAnyMemberInitializer()) {
          J.num(S(I->getAnyMember()->getQualifiedNameAsString()));
        } else if (I->isBaseInitializer()) {
          J.num(S("base:" + TypeStr(QualType(I->getBaseClass(), 0))));
        } else {
          J.num(S("delegating"));
        }
        J.raw(",\"e\":");
        J.num(IdOf(X, I->getInit()));
        if (!I->isWritten()) {
          J.raw(",\"implicit\":1");
        }
        J.raw("}");
      }
      J.raw("]");
    }
    J.raw(",\"body\":");
    J.num(bodyId);
    J.raw(",\"cfg\":");
    J.raw(cfgJson);
    J.raw(",\"locals\":[");
    for (size_t i = 0; i < X.locals.size(); ++i) {
      if (i) {
        J.raw(",");
      }
      J.raw(X.locals[i]);
    }
    J.raw("],\"nodes\":[");
    for (size_t i = 0; i < X.nodes.size(); ++i) {
      if (i) {
        J.raw(",");
      }
      J.raw(X.nodes[i]);
    }
    J.raw("]}");
    fnJson.push_back(std::move(J.s));
  }

  void EmitRecord(const CXXRecordDecl* RD) {
    if (!RD || !RD->isCompleteDefinition() || RD->isDependentContext() || RD->isLambda()) {
      return;
    }
    RD = RD->getDefinition();
    if (!WantLoc(RD->getLocation())) {
      return;
    }
    if (!seenRec.insert(RD).second) {
      return;
    }
    unsigned line = 0;
    std::string f = FileOf(RD->getLocation(), &line);
    Json J;
    J.raw("{\"name\":");
    J.num(S(RecName(RD)));
    J.raw(",\"qn\":");
    J.num(S(RD->getQualifiedNameAsString()));
    J.raw(",\"file\":");
    J.num(S(f));
    J.raw(",\"line\":");
    J.num(line);
    if (RD->isUnion()) {
      J.raw(",\"union\":1");
    }
    if (RD->hasAttr<FinalAttr>()) {
      J.raw(",\"final\":1");
    }
    if (const auto* CTS = dyn_cast<ClassTemplateSpecializationDecl>(RD)) {
      J.raw(",\"ta\":");
      TArgs(J, &CTS->getTemplateArgs());
    }
    J.raw(",\"bases\":[");
    bool first = true;
    for (const auto& B : RD->bases()) {
      if (!first) {
        J.raw(",");
      }
      first = false;
      J.raw("{\"t\":");
      J.num(S(TypeStr(B.getType())));
      J.raw(",\"acc\":");
      J.num(B.getAccessSpecifier());
      if (B.isVirtual()) {
        J.raw(",\"virtual\":1");
      }
      J.raw("}");
    }
    J.raw("],\"fields\":[");
    first = true;
    for (const FieldDecl* F : RD->fields()) {
      if (!first) {
        J.raw(",");
      }
      first = false;
      J.raw("{\"n\":");
      J.num(S(F->getNameAsString()));
      J.raw(",\"t\":");
      J.num(S(TypeStr(F->getType())));
      J.raw(",\"acc\":");
      J.num(F->getAccess());
      if (F->isMutable()) {
        J.raw(",\"mutable\":1");
      }
      if (F->hasInClassInitializer()) {
        J.raw(",\"dmi\":1");
        // constant value of the default member initialiser (integers, bools, null pointers)
        if (const Expr* IE = F->getInClassInitializer()) {
          if (!IE->isValueDependent()) {
            Expr::EvalResult R;
            if (IE->EvaluateAsRValue(R, C)) {
              if (R.Val.isInt()) {
                J.raw(",\"dmiv\":");
                J.raw(toString(R.Val.getInt(), 10));
              } else if (R.Val.isNullPointer()) {
                J.raw(",\"dmiv\":0");
              }
            }
          }
        }
      }
      J.raw("}");
    }
    J.raw("],\"methods\":[");
    first = true;
    for (const CXXMethodDecl* M : RD->methods()) {
      if (M->isImplicit()) {
        continue;
      }
      if (!first) {
        J.raw(",");
      }
      first = false;
      J.raw("{\"n\":");
      J.num(S(M->getNameAsString()));
      J.raw(",\"key\":");
      J.num(S(Mangle(M)));
      if (M->isVirtual()) {
        J.raw(",\"virtual\":1");
      }
      if (M->isPure()) {
        J.raw(",\"pure\":1");
      }
      if (M->hasAttr<FinalAttr>()) {
        J.raw(",\"final\":1");
      }
      if (M->isConst()) {
        J.raw(",\"const\":1");
      }
      if (M->isDeleted()) {
        J.raw(",\"deleted\":1");
      }
      if (M->isDefaulted()) {
        J.raw(",\"defaulted\":1");
      }
      // a member of a class template specialisation has a definition only if some use instantiated it
      if (M->isDefined()) {
        J.raw(",\"def\":1");
      }
      {
        unsigned mline = 0;
        FileOf(M->getLocation(), &mline);
        J.raw(",\"line\":");
        J.num(mline);
      }
      J.raw(",\"acc\":");
      J.num(M->getAccess());
      if (M->size_overridden_methods()) {
        J.raw(",\"ov\":[");
        bool f2 = true;
        for (const CXXMethodDecl* O : M->overridden_methods()) {
          if (!f2) {
            J.raw(",");
          }
          f2 = false;
          J.num(S(Mangle(O)));
        }
        J.raw("]");
      }
      J.raw("}");
    }
    // every member function name in declaration order, member templates included (used to recognise renames)
    J.raw("],\"mnames\":[");
    first = true;
    for (const Decl* D : RD->decls()) {
      std::string nm;
      if (const auto* M = dyn_cast<CXXMethodDecl>(D)) {
        if (M->isImplicit() || isa<CXXConstructorDecl>(M) || isa<CXXDestructorDecl>(M) || M->isOverloadedOperator() ||
            isa<CXXConversionDecl>(M)) {
          continue;
        }
        nm = M->getNameAsString();
      } else if (const auto* FT = dyn_cast<FunctionTemplateDecl>(D)) {
        const auto* TD = FT->getTemplatedDecl();
        if (!TD || isa<CXXConstructorDecl>(TD) || TD->isOverloadedOperator() || isa<CXXConversionDecl>(TD)) {
          continue;
        }
        nm = TD->getNameAsString();
      } else {
        continue;
      }
      if (!first) {
        J.raw(",");
      }
      first = false;
      J.num(S(nm));
    }
    J.raw("]}");
    recJson.push_back(std::move(J.s));
  }

  void EmitEnum(const EnumDecl* ED) {
    if (!ED || !ED->isCompleteDefinition() || !WantLoc(ED->getLocation())) {
      return;
    }
    if (ED->isDependentContext()) {
      return;
    }
    if (!seenEnum.insert(ED->getCanonicalDecl()).second) {
      return;
    }
    Json J;
    J.raw("{\"name\":");
    J.num(S(ED->getQualifiedNameAsString()));
    J.raw(",\"consts\":{");
    bool first = true;
    for (const EnumConstantDecl* EC : ED->enumerators()) {
      if (!first) {
        J.raw(",");
      }
      first = false;
      J.str(EC->getNameAsString());
      J.raw(":");
      J.raw(toString(EC->getInitVal(), 10));
    }
    J.raw("}}");
    enumJson.push_back(std::move(J.s));
  }

  void EmitVar(const VarDecl* VD) {
    if (!VD || VD->isLocalVarDeclOrParm() || !VD->isThisDeclarationADefinition()) {
      return;
    }
    if (VD->getDeclContext()->isDependentContext() || VD->getType()->isDependentType()) {
      return;
    }
    if (!WantLoc(VD->getLocation())) {
      return;
    }
    if (!seenVar.insert(VD).second) {
      return;
    }
    unsigned line = 0;
    std::string f = FileOf(VD->getLocation(), &line);
    Json J;
    J.raw("{\"name\":");
    J.num(S(VD->getQualifiedNameAsString()));
    J.raw(",\"t\":");
    J.num(S(TypeStr(VD->getType())));
    J.raw(",\"file\":");
    J.num(S(f));
    J.raw(",\"line\":");
    J.num(line);
    if (VD->getTLSKind() != VarDecl::TLS_None) {
      J.raw(",\"tls\":1");
    }
    if (VD->getType().isConstQualified() || VD->isConstexpr()) {
      J.raw(",\"const\":1");
    }
    if (VD->isStaticDataMember()) {
      J.raw(",\"member\":1");
    }
    if (VD->isStaticLocal()) {
      J.raw(",\"staticlocal\":1");
    }
    if (VD->hasInit() && !VD->getInit()->isValueDependent()) {
      QualType T = VD->getType();
      if (T->isIntegralOrEnumerationType()) {
        Expr::EvalResult R;
        if (VD->getInit()->EvaluateAsInt(R, C, Expr::SE_NoSideEffects) && R.Val.isInt()) {
          J.raw(",\"v\":");
          J.raw(toString(R.Val.getInt(), 10));
        }
      }
    }
    J.raw("}");
    varJson.push_back(std::move(J.s));
    EmitVarInit(VD);
  }

  // the initialiser of a namespace-scope / static variable as a pseudo function (no CFG): rules that scan
  // call sites (deny-lists, who-may-call) must see what runs during static initialisation
  void EmitVarInit(const VarDecl* VD) {
    if (!VD->hasInit() || VD->getInit()->isValueDependent() || VD->getInit()->isTypeDependent()) {
      return;
    }
    FnCtx X;
    unsigned line = 0, col = 0;
    X.file = FileOf(VD->getLocation(), &line, &col);
    unsigned body = IdOf(X, VD->getInit());
    Json J;
    J.raw("{\"key\":");
    J.num(S("init:" + Mangle(VD)));
    J.raw(",\"qn\":");
    J.num(S(VD->getQualifiedNameAsString() + "(init)"));
    J.raw(",\"n\":");
    J.num(S("(init)"));
    J.raw(",\"file\":");
    J.num(S(X.file));
    J.raw(",\"line\":");
    J.num(line);
    J.raw(",\"eline\":");
    J.num(line);
    J.raw(",\"ret\":");
    J.num(S(TypeStr(VD->getType())));
    J.raw(",\"varinit\":1,\"params\":[],\"body\":");
    J.num(body);
    J.raw(",\"cfg\":null,\"locals\":[");
    for (size_t i = 0; i < X.locals.size(); ++i) {
      if (i) {
        J.raw(",");
      }
      J.raw(X.locals[i]);
    }
    J.raw("],\"nodes\":[");
    for (size_t i = 0; i < X.nodes.size(); ++i) {
      if (i) {
        J.raw(",");
      }
      J.raw(X.nodes[i]);
    }
    J.raw("]}");
    fnJson.push_back(std::move(J.s));
  }
};

struct Visitor : RecursiveASTVisitor<Visitor> {
  Extractor& X;
  explicit Visitor(Extractor& x) : X(x) {
  }
  bool shouldVisitTemplateInstantiations() const {
    return true;
  }
  bool shouldVisitImplicitCode() const {
    return false;
  }
  bool VisitFunctionDecl(FunctionDecl* F) {
    X.EmitFunction(F);
    return true;
  }
  bool VisitCXXRecordDecl(CXXRecordDecl* R) {
    X.EmitRecord(R);
    return true;
  }
  bool VisitEnumDecl(EnumDecl* E) {
    X.EmitEnum(E);
    return true;
  }
  // namespace-scope function templates (the public factories / algorithms): name, location and how many
  // specialisations this unit instantiated with a body — an API entry no probe instantiates is analysed by no rule
  bool VisitFunctionTemplateDecl(FunctionTemplateDecl* T) {
    const FunctionDecl* P = T->getTemplatedDecl();
    if (!P || !X.WantLoc(T->getLocation()) || !T->getDeclContext()->isNamespace() ||
        !T->isThisDeclarationADefinition()) {
      return true;
    }
    if (!X.seenTmpl.insert(T->getCanonicalDecl()).second) {
      return true;
    }
    unsigned n = 0;
    for (const FunctionDecl* S : T->specializations()) {
      if (S->isDefined()) {
        ++n;
      }
    }
    unsigned line = 0;
    std::string f = X.FileOf(T->getLocation(), &line);
    Json J;
    J.raw("{\"name\":");
    J.num(X.S(T->getQualifiedNameAsString()));
    J.raw(",\"file\":");
    J.num(X.S(f));
    J.raw(",\"line\":");
    J.num(line);
    J.raw(",\"inst\":");
    J.num(n);
    if (P->isDeleted()) {
      J.raw(",\"deleted\":1");
    }
    J.raw("}");
    X.tmplJson.push_back(std::move(J.s));
    return true;
  }
  bool VisitVarDecl(VarDecl* V) {
    X.EmitVar(V);
    // static locals are interesting too (mutable process state)
    if (V->isStaticLocal() && !V->getDeclContext()->isDependentContext() && X.WantLoc(V->getLocation())) {
      if (X.seenVar.insert(V).second) {
        unsigned line = 0;
        std::string f = X.FileOf(V->getLocation(), &line);
        Json J;
        J.raw("{\"name\":");
        J.num(X.S(V->getQualifiedNameAsString()));
        J.raw(",\"t\":");
        J.num(X.S(X.TypeStr(V->getType())));
        J.raw(",\"file\":");
        J.num(X.S(f));
        J.raw(",\"line\":");
        J.num(line);
        J.raw(",\"staticlocal\":1");
        if (V->getTLSKind() != VarDecl::TLS_None) {
          J.raw(",\"tls\":1");
        }
        if (V->getType().isConstQualified() || V->isConstexpr()) {
          J.raw(",\"const\":1");
        }
        J.raw("}");
        X.varJson.push_back(std::move(J.s));
      }
    }
    return true;
  }
};

struct Consumer : ASTConsumer {
  void HandleTranslationUnit(ASTContext& C) override {
    gErrors = C.getDiagnostics().getClient() ? C.getDiagnostics().getClient()->getNumErrors() : 0;
    Extractor X(C);
    Visitor V(X);
    V.TraverseDecl(C.getTranslationUnitDecl());
    std::error_code EC;
    llvm::raw_fd_ostream os(OutPath, EC);
    if (EC) {
      llvm::errs() << "cannot write " << OutPath << ": " << EC.message() << "\n";
      return;
    }
    Json H;
    os << "{\"errors\":" << gErrors << ",\"S\":[";
    for (size_t i = 0; i < X.strings.size(); ++i) {
      if (i) {
        os << ",";
      }
      Json T;
      T.str(X.strings[i]);
      os << T.s;
    }
    os << "],\n\"enums\":[";
    for (size_t i = 0; i < X.enumJson.size(); ++i) {
      os << (i ? ",\n" : "") << X.enumJson[i];
    }
    os << "],\n\"vars\":[";
    for (size_t i = 0; i < X.varJson.size(); ++i) {
      os << (i ? ",\n" : "") << X.varJson[i];
    }
    os << "],\n\"templates\":[";
    for (size_t i = 0; i < X.tmplJson.size(); ++i) {
      os << (i ? ",\n" : "") << X.tmplJson[i];
    }
    os << "],\n\"records\":[";
    for (size_t i = 0; i < X.recJson.size(); ++i) {
      os << (i ? ",\n" : "") << X.recJson[i];
    }
    os << "],\n\"functions\":[";
    for (size_t i = 0; i < X.fnJson.size(); ++i) {
      os << (i ? ",\n" : "") << X.fnJson[i];
    }
    os << "]}\n";
  }
};

struct Action : ASTFrontendAction {
  std::unique_ptr<ASTConsumer> CreateASTConsumer(CompilerInstance&, StringRef) override {
    return std::make_unique<Consumer>();
  }
};

}  // namespace

int main(int argc, const char** argv) {
  auto EP = CommonOptionsParser::create(argc, argv, Cat);
  if (!EP) {
    llvm::errs() << EP.takeError();
    return 2;
  }
  {
    llvm::StringRef r(Roots);
    llvm::SmallVector<llvm::StringRef, 4> parts;
    r.split(parts, ',');
    for (auto p : parts) {
      if (!p.empty()) {
        gRoots.push_back(p.str());
      }
    }
  }
  ClangTool Tool(EP->getCompilations(), EP->getSourcePathList());
  int rc = Tool.run(newFrontendActionFactory<Action>().get());
  return rc;
}
