#!/usr/bin/env python3
"""dev helper: clang -fsyntax-only of a probe in its configurations"""
import subprocess, sys, re, os
sys.path.insert(0, os.path.dirname(os.path.dirname(os.path.abspath(__file__))))
from vlib import facts
p = sys.argv[1]
head = open(p).readline()
cfgs = re.match(r'//\s*configs:\s*(.*)', head).group(1).split()
if len(sys.argv) > 2: cfgs = sys.argv[2:]
for c in cfgs:
    r = subprocess.run(['clang++', '-fsyntax-only', p] + facts.flags(c) + ['-ferror-limit=0'], capture_output=True, text=True)
    errs = [l for l in r.stderr.splitlines() if 'error' in l]
    print(c, r.returncode, len(errs))
    print('\n'.join(errs[:25]))
