#!/usr/bin/env python3
"""Regenerates tables/field_anchors.json: the field names (in declaration order, with types) of every library record,
as they are on the tree the rules were written against.  The fact loader uses it to canonicalise RENAMED fields
(same record, same number of fields, same position, same type modulo template arguments): rules keep naming fields
by their original names and a behaviour-preserving member rename does not break an anchor.  Run by hand only."""
import json
import os
import sys

sys.path.insert(0, os.path.dirname(os.path.dirname(os.path.abspath(__file__))))
from vlib import facts  # noqa: E402


def main():
    out = {}
    meth = {}
    for cfg in facts.CONFIGS:
        fbs = facts.load([cfg], ('lib', 'probe'))
        for r in fbs[cfg].records.values():
            if not r.qn.startswith('yaclib') or not (r.file.startswith(facts.REPO + '/include') or
                                                      r.file.startswith(facts.REPO + '/src')):
                continue
            if r.mnames and r.mnames not in meth.setdefault(r.qn, []):
                meth[r.qn].append(r.mnames)  # one variant per configuration / specialisation that differs
            fields = [[f['n'], facts.strip_targs(f['t'])] for f in r.fields]
            if not fields:
                continue
            if fields not in out.setdefault(r.qn, []):
                out[r.qn].append(fields)
    p = os.path.join(facts.VERIF, 'tables', 'field_anchors.json')
    with open(p, 'w') as f:
        json.dump(dict(_doc='field names per library record on the reference tree (tool/gen_anchors.py); used only to '
                            'map renamed fields back to these names', records=out, methods=meth), f, indent=0, sort_keys=True)
    print('%d records, %d with member functions' % (len(out), len(meth)))


if __name__ == '__main__':
    main()
