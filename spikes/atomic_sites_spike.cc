#include "clang/AST/ASTConsumer.h"
#include "clang/AST/RecursiveASTVisitor.h"
#include "clang/AST/ExprCXX.h"
#include "clang/Frontend/CompilerInstance.h"
#include "clang/Frontend/FrontendAction.h"
#include "clang/Tooling/CommonOptionsParser.h"
#include "clang/Tooling/Tooling.h"
#include "llvm/Support/CommandLine.h"
using namespace clang;
using namespace clang::tooling;
static llvm::cl::OptionCategory Cat("a");
struct V : RecursiveASTVisitor<V> {
  ASTContext& C; FunctionDecl* Cur = nullptr;
  explicit V(ASTContext& C) : C(C) {}
  bool shouldVisitTemplateInstantiations() const { return true; }
  bool TraverseFunctionDecl(FunctionDecl* F) { auto* o = Cur; Cur = F; bool r = RecursiveASTVisitor::TraverseFunctionDecl(F); Cur = o; return r; }
  bool TraverseCXXMethodDecl(CXXMethodDecl* F) { auto* o = Cur; Cur = F; bool r = RecursiveASTVisitor::TraverseCXXMethodDecl(F); Cur = o; return r; }
  bool VisitCXXMemberCallExpr(CXXMemberCallExpr* E) {
    if (!Cur || Cur->isDependentContext()) return true;
    auto* M = E->getMethodDecl(); if (!M) return true;
    auto* R = M->getParent();
    std::string rn = R->getQualifiedNameAsString();
    if (rn.find("atomic") == std::string::npos) return true;
    auto& SM = C.getSourceManager();
    auto loc = SM.getPresumedLoc(SM.getExpansionLoc(E->getExprLoc()));
    if (!loc.isValid() || std::string(loc.getFilename()).find("/repo/") == std::string::npos) return true;
    std::string obj = "?";
    const Expr* O = E->getImplicitObjectArgument()->IgnoreParenImpCasts();
    if (auto* ME = dyn_cast<MemberExpr>(O)) obj = ME->getMemberDecl()->getQualifiedNameAsString();
    else if (auto* DR = dyn_cast<DeclRefExpr>(O)) obj = DR->getDecl()->getQualifiedNameAsString();
    llvm::outs() << loc.getFilename() << ":" << loc.getLine() << " in " << Cur->getQualifiedNameAsString() << " : " << obj << "." << M->getNameAsString() << "(";
    for (unsigned i = 0; i < E->getNumArgs(); ++i) {
      const Expr* A = E->getArg(i);
      bool def = isa<CXXDefaultArgExpr>(A);
      Expr::EvalResult ER;
      if (A->getType()->isEnumeralType() && !A->isValueDependent() && A->EvaluateAsRValue(ER, C) && ER.Val.isInt())
        llvm::outs() << (def ? "default:" : "") << "order=" << ER.Val.getInt().getExtValue();
      else llvm::outs() << "_";
      if (i + 1 < E->getNumArgs()) llvm::outs() << ", ";
    }
    llvm::outs() << ")\n";
    return true;
  }
};
struct Cons : ASTConsumer { void HandleTranslationUnit(ASTContext& C) override { V v(C); v.TraverseDecl(C.getTranslationUnitDecl()); } };
struct Act : ASTFrontendAction { std::unique_ptr<ASTConsumer> CreateASTConsumer(CompilerInstance&, StringRef) override { return std::make_unique<Cons>(); } };
int main(int argc, const char** argv) {
  auto EP = CommonOptionsParser::create(argc, argv, Cat);
  if (!EP) { llvm::errs() << EP.takeError(); return 1; }
  ClangTool Tool(EP->getCompilations(), EP->getSourcePathList());
  return Tool.run(newFrontendActionFactory<Act>().get());
}
