#include <yaclib/async/contract.hpp>
#include <yaclib/async/make.hpp>
#include <yaclib/async/run.hpp>
#include <yaclib/async/wait.hpp>
#include <yaclib/async/wait_for.hpp>
#include <yaclib/async/when_all.hpp>
#include <yaclib/async/when_any.hpp>
#include <yaclib/exe/strand.hpp>
#include <vector>
#include <chrono>
using namespace yaclib;
extern "C" {
void probe_then_inline(Future<int>& f, Future<int>& out) { out = std::move(f).ThenInline([](int x) { return x + 1; }); }
void probe_then_exec(Future<int>& f, IExecutor& e, FutureOn<int>& out) { out = std::move(f).Then(e, [](int x) { return x + 1; }); }
void probe_then_unwrap(Future<int>& f, Future<int>& out) { out = std::move(f).ThenInline([](int x) { return MakeFuture(x); }); }
void probe_detach(Future<int>& f) { std::move(f).DetachInline([](int) {}); }
void probe_make_contract(Contract<int, StopError>& out) { out = MakeContract<int>(); }
void probe_wait2(Future<int>& a, Future<int>& b) { Wait(a, b); }
void probe_wait_it(std::vector<Future<int>>& v) { Wait(v.begin(), v.end()); }
bool probe_waitfor(Future<int>& a, Future<int>& b) { return WaitFor(std::chrono::seconds(1), a, b); }
void probe_get(Future<int>& a, Result<int, StopError>& r) { r = std::move(a).Get(); }
void probe_when_all_dyn(std::vector<Future<int>>& v, Future<std::vector<int>>& out) { out = WhenAll(v.begin(), v.size()); }
void probe_when_any_dyn(std::vector<Future<int>>& v, Future<int>& out) { out = WhenAny(v.begin(), v.size()); }
void probe_strand_submit(IExecutor& strand, Job& j) { strand.Submit(j); }
}
