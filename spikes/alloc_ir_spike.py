import re, sys, collections
sys.setrecursionlimit(100000)
ALLOC = {'_Znwm','_Znam','_ZnwmSt11align_val_t','_ZnamSt11align_val_t','_ZnwmRKSt9nothrow_t','malloc','calloc','realloc','posix_memalign','aligned_alloc'}
INF = float('inf')
funcs = {}   # name -> {'blocks': {label: {'calls':[...], 'succ':[...]}}, 'entry': label}
cur = None
def_re = re.compile(r'^define .*?@("?)([^"(]+|[^"]+)\1\(')
call_re = re.compile(r'\b(?:call|invoke)\b[^@]*?@("?)([\w.$]+|[^"]+)\1\(')
label_re = re.compile(r'^([\w.$-]+):')
for line in open(sys.argv[1]):
    line = line.rstrip('\n')
    if line.startswith('define '):
        m = re.match(r'^define .*? @(?:"([^"]+)"|([\w.$]+))\(', line)
        name = m.group(1) or m.group(2)
        cur = {'blocks': collections.OrderedDict(), 'entry': '0'}
        funcs[name] = cur
        blk = '0'
        cur['blocks'][blk] = {'calls': [], 'succ': [], 'indirect': 0}
        continue
    if cur is None: continue
    if line == '}':
        cur = None; continue
    m = label_re.match(line)
    if m:
        blk = m.group(1)
        cur['blocks'].setdefault(blk, {'calls': [], 'succ': [], 'indirect': 0})
        continue
    s = line.strip()
    b = cur['blocks'][blk]
    if re.search(r'\b(call|invoke)\b', s) and not s.startswith(';'):
        m = re.search(r'\b(?:call|invoke)\b.*? @(?:"([^"]+)"|([\w.$]+))\(', s)
        if m:
            callee = m.group(1) or m.group(2)
            if not callee.startswith('llvm.'):
                b['calls'].append(callee)
        elif re.search(r'\b(?:call|invoke)\b.*? %[\w.]+\(', s):
            b['indirect'] += 1
        if ' invoke ' in ' ' + s or s.startswith('invoke') or '= invoke' in s:
            pass
    # successors
    if s.startswith('br ') or s.startswith('switch ') or 'to label' in s or s.startswith('indirectbr'):
        for l in re.findall(r'label %([\w.$-]+)', s):
            b['succ'].append(l)
    elif s.startswith('to label'):
        for l in re.findall(r'label %([\w.$-]+)', s):
            b['succ'].append(l)
    elif re.match(r'^\]?$', s):
        pass
    elif s.startswith('i') and 'label %' in s:  # switch case lines
        for l in re.findall(r'label %([\w.$-]+)', s):
            b['succ'].append(l)
# handle invoke continuation lines "to label %x unwind label %y" (they're on the next line)
memo = {}
onstack = set()
def sccs(nodes, succ):
    index = {}; low = {}; st = []; on = set(); out = []; c = [0]
    def sc(v):
        index[v] = low[v] = c[0]; c[0] += 1; st.append(v); on.add(v)
        for w in succ(v):
            if w not in index: sc(w); low[v] = min(low[v], low[w])
            elif w in on: low[v] = min(low[v], index[w])
        if low[v] == index[v]:
            comp = []
            while True:
                w = st.pop(); on.discard(w); comp.append(w)
                if w == v: break
            out.append(comp)
    for v in nodes:
        if v not in index: sc(v)
    return out
def fmax(name):
    if name in ALLOC: return 1
    if name not in funcs: return 0   # external, non-allocating by definition of the count (libstdc++ out-of-line is opaque!)
    if name in memo: return memo[name]
    if name in onstack: return None  # recursion marker
    onstack.add(name)
    f = funcs[name]
    w = {}
    rec = False
    for l, b in f['blocks'].items():
        t = 0
        for c in b['calls']:
            v = fmax(c)
            if v is None: rec = True; v = 0
            t += v
        w[l] = t
    comps = sccs(list(f['blocks']), lambda v: [x for x in f['blocks'][v]['succ'] if x in f['blocks']])
    cid = {}
    for i, comp in enumerate(comps):
        for v in comp: cid[v] = i
    cw = {}
    for i, comp in enumerate(comps):
        tot = sum(w[v] for v in comp)
        cyc = len(comp) > 1 or any(v in f['blocks'][v]['succ'] for v in comp)
        cw[i] = INF if (cyc and tot > 0) else tot
    # comps are in reverse topological order (Tarjan): successors first
    best = {}
    for i, comp in enumerate(comps):
        m = 0
        for v in comp:
            for x in f['blocks'][v]['succ']:
                if x in cid and cid[x] != i:
                    m = max(m, best[cid[x]])
        best[i] = cw[i] + m
    onstack.discard(name)
    r = best[cid[f['entry']]]
    memo[name] = r
    return r
for n in sorted(funcs):
    if n.startswith('probe_'):
        print(n, fmax(n))
def reach(name, seen):
    if name in seen: return
    seen.add(name)
    if name not in funcs: return
    for b in funcs[name]['blocks'].values():
        for c in b['calls']: reach(c, seen)
ext = set(); ind = 0
for n in funcs:
    if n.startswith('probe_'):
        s = set(); reach(n, s)
        ext |= {x for x in s if x not in funcs}
        ind += sum(b['indirect'] for x in s if x in funcs for b in funcs[x]['blocks'].values())
print('external callees:', sorted(ext))
print('indirect call sites reachable:', ind)
