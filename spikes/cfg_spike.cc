#include "clang/AST/ASTConsumer.h"
#include "clang/AST/RecursiveASTVisitor.h"
#include "clang/Analysis/CFG.h"
#include "clang/Frontend/CompilerInstance.h"
#include "clang/Frontend/FrontendAction.h"
#include "clang/Tooling/CommonOptionsParser.h"
#include "clang/Tooling/Tooling.h"
#include "llvm/Support/CommandLine.h"
using namespace clang;
using namespace clang::tooling;
static llvm::cl::OptionCategory Cat("t");
struct V : RecursiveASTVisitor<V> {
  ASTContext& C;
  explicit V(ASTContext& C) : C(C) {}
  bool shouldVisitTemplateInstantiations() const { return true; }
  bool VisitFunctionDecl(FunctionDecl* F) {
    if (!F->doesThisDeclarationHaveABody()) return true;
    if (F->isDependentContext()) return true; if (F->getQualifiedNameAsString().find("Core") != std::string::npos && F->getQualifiedNameAsString().find("yaclib") != std::string::npos) llvm::outs() << "SEEN " << F->getQualifiedNameAsString() << "\n";
    std::string n = F->getQualifiedNameAsString();
    if (n.find("yaclib::detail::Core::Done") == std::string::npos && n.find("FairThreadPool::Loop") == std::string::npos) return true;
    CFG::BuildOptions BO; BO.AddImplicitDtors = true; BO.AddTemporaryDtors = true; BO.setAllAlwaysAdd();
    auto cfg = CFG::buildCFG(F, F->getBody(), &C, BO);
    std::string s; llvm::raw_string_ostream os(s);
    F->getNameForDiagnostic(os, C.getPrintingPolicy(), true);
    llvm::outs() << "FUNC " << os.str().substr(0, 200) << " blocks=" << (cfg ? cfg->size() : 0) << "\n";
    if (cfg && n.find("Loop") != std::string::npos) cfg->print(llvm::outs(), C.getLangOpts(), false);
    return true;
  }
};
struct Cons : ASTConsumer {
  void HandleTranslationUnit(ASTContext& C) override { V v(C); v.TraverseDecl(C.getTranslationUnitDecl()); }
};
struct Act : ASTFrontendAction {
  std::unique_ptr<ASTConsumer> CreateASTConsumer(CompilerInstance&, StringRef) override { return std::make_unique<Cons>(); }
};
int main(int argc, const char** argv) {
  auto EP = CommonOptionsParser::create(argc, argv, Cat);
  if (!EP) { llvm::errs() << EP.takeError(); return 1; }
  ClangTool Tool(EP->getCompilations(), EP->getSourcePathList());
  return Tool.run(newFrontendActionFactory<Act>().get());
}
